// C04 — snapshot digests are a canonical function of the event sequence
// alone (differential against the independent reference model).
package c04

import (
	"bytes"
	"fmt"
	"testing"

	"github.com/bbva/qed/balloon/cache"
	"github.com/bbva/qed/balloon/history"
	"github.com/bbva/qed/balloon/hyper"
	"github.com/bbva/qed/crypto/hashing"
	"github.com/bbva/qed/storage"
	"github.com/bbva/qed/storage/bplus"
	"pgregory.net/rapid"

	"verif/gen"
	"verif/pbt"
	"verif/refmodel"
	"verif/rig"
)

const ruleBalloon = "rapid-drawn (digest sequence incl. prefix families / dup class; 1 in 16 cases a log of 1001-2001 events in a few big bulks, above the 1000-entry page of the cache warm-up) x (partition into Add/AddBulk) x (restart points: fresh Balloon on the same store); every returned snapshot compared with the independent reference trees. Non-trivial: n>=3 and the case has a bulk>=2, a restart, or two keys sharing a >=24-bit prefix; distinct = FNV-64 of the canonical history."

func TestBalloonVsRef(t *testing.T) {
	rec := pbt.NewRec("C04", "TestBalloonVsRef", ruleBalloon,
		"hyper inner nodes hash right child before left (the order the pinned tree publishes; no document fixes it)",
		"SHA-256 as implemented by crypto/sha256")
	maxN := pbt.Scale(80, 600)
	pbt.Run(t, rec, func(rt *rapid.T) rig.LogHistory {
		if rapid.IntRange(0, 15).Draw(rt, "page-boundary") == 0 {
			h := rig.DrawBigLog(rt, rapid.SampledFrom([]int{1001, 1100, 2001}).Draw(rt, "big-n"))
			for i := 1; i < len(h.Calls); i++ {
				h.Restarts = append(h.Restarts, i)
			}
			return h
		}
		distinct := rapid.IntRange(0, 6).Draw(rt, "distinct") != 0
		return rig.DrawLog(rt, maxN, distinct, true)
	}, execBalloon)
}

func execBalloon(h rig.LogHistory, rec *pbt.Rec) error {
	cls := h.Classes()
	nt := false
	for _, c := range cls {
		if c == "bulk>=2" || c == "restart" || c == "prefix>=24" {
			nt = true
		}
	}
	nt = nt && len(h.Digests) >= 3
	rec.Case(h, nt, cls...)
	rec.Sample(len(h.Digests), h)
	b, m, err := h.Build(true)
	if err != nil {
		return err
	}
	rec.Count("snapshots_compared", int64(m.Len()))
	// Metamorphic: the same sequence inserted one by one on a second balloon
	// yields the same history digests (and hyper digests at call boundaries
	// for distinct events). Only for small cases: a balloon costs ~0.1 s.
	if len(h.Digests) <= 24 && len(h.Calls) != len(h.Digests) {
		h2 := h
		h2.Calls = nil
		h2.Restarts = nil
		for range h.Digests {
			h2.Calls = append(h2.Calls, gen.Call{N: 1})
		}
		b2, _, err := h2.Build(true)
		if err != nil {
			return fmt.Errorf("all-single variant: %v", err)
		}
		for v := range b.Snaps {
			if !bytes.Equal(b.Snaps[v].HistoryDigest, b2.Snaps[v].HistoryDigest) {
				return fmt.Errorf("history digest of v%d depends on the partition", v)
			}
		}
		if h.Distinct {
			last := len(b.Snaps) - 1
			if !bytes.Equal(b.Snaps[last].HyperDigest, b2.Snaps[last].HyperDigest) {
				return fmt.Errorf("final hyper digest depends on the partition")
			}
		}
		rec.Count("partition_pairs_compared", 1)
	}
	return nil
}

// ---------------------------------------------------------------- tree level

type TreeHistory struct {
	rig.LogHistory
	HistCache uint16 `json:"hist_cache"`
	FreshEach bool   `json:"fresh_tree_each_call"` // rebuild both trees before every call (every restart point)
}

const ruleTrees = "tree-level rig: history.NewHistoryTree with a drawn write-cache capacity (1..300 for single adds, >= 2*largest bulk+64 for bulks) and hyper.NewHyperTree over a small SimpleCache, optionally rebuilt before every call; digests compared with the reference trees. Non-trivial: n>=3 and (cache capacity < n, or a bulk>=2, or trees rebuilt). distinct = FNV-64 of the history."

func TestTreesVsRef(t *testing.T) {
	rec := pbt.NewRec("C04", "TestTreesVsRef", ruleTrees,
		"un-persisted nodes of one bulk must stay in the history write cache (caller precondition: capacity >= nodes written by one bulk)")
	maxN := pbt.Scale(150, 1500)
	pbt.Run(t, rec, func(rt *rapid.T) TreeHistory {
		h := TreeHistory{LogHistory: rig.DrawLog(rt, maxN, true, false)}
		if rapid.IntRange(0, 11).Draw(rt, "page-boundary") == 0 {
			// the cache warm-up reads the recovery tiles in pages of 1000: logs around
			// the page size, in a few big bulks, rebuilt before every call
			h.LogHistory = rig.DrawBigLog(rt, rapid.SampledFrom([]int{999, 1000, 1001, 1500, 1999, 2001, 2300}).Draw(rt, "big-n"))
		}
		maxBulk := 1
		for _, c := range h.Calls {
			if c.N > maxBulk {
				maxBulk = c.N
			}
		}
		if maxBulk == 1 {
			h.HistCache = rapid.SampledFrom([]uint16{1, 2, 3, 8, 16, 64, 300}).Draw(rt, "cache")
		} else {
			h.HistCache = uint16(2*maxBulk + 64 + rapid.IntRange(0, 100).Draw(rt, "slack"))
		}
		h.FreshEach = rapid.IntRange(0, 3).Draw(rt, "fresh") == 0 || len(h.Digests) > 900
		return h
	}, execTrees)
}

func execTrees(h TreeHistory, rec *pbt.Rec) error {
	ds := h.Ds()
	maxBulk := 1
	for _, c := range h.Calls {
		if c.N > maxBulk {
			maxBulk = c.N
		}
	}
	nt := len(ds) >= 3 && (int(h.HistCache) < len(ds) || maxBulk >= 2 || h.FreshEach)
	cls := h.Classes()
	if int(h.HistCache) < len(ds) {
		cls = append(cls, "cache<n")
	}
	if h.FreshEach {
		cls = append(cls, "rebuilt-each-call")
	}
	rec.Case(h, nt, cls...)
	rec.Sample(len(ds), h)

	store := bplus.NewBPlusTreeStore()
	mk := func() (*history.HistoryTree, *hyper.HyperTree) {
		return history.NewHistoryTree(hashing.NewSha256Hasher, store, h.HistCache),
			hyper.NewHyperTree(hashing.NewSha256Hasher, store, cache.NewSimpleCache(0))
	}
	ht, yt := mk()
	m := refmodel.NewLog()
	off := 0
	for ci, c := range h.Calls {
		if h.FreshEach && ci > 0 {
			ht, yt = mk()
		}
		part := ds[off : off+c.N]
		first := uint64(off)
		off += c.N
		want := m.AddBulk(part)
		var hd []hashing.Digest
		var yd hashing.Digest
		var muts []*storage.Mutation
		if c.Bulk {
			in := make([]hashing.Digest, len(part))
			for i := range part {
				in[i] = rig.Dg(part[i])
			}
			var m1, m2 []*storage.Mutation
			var err error
			hd, m1, err = ht.AddBulk(in, first)
			if err != nil {
				return err
			}
			in2 := make([]hashing.Digest, len(part))
			for i := range part {
				in2[i] = rig.Dg(part[i])
			}
			yd, m2, err = yt.AddBulk(in2, first)
			if err != nil {
				return err
			}
			muts = append(m1, m2...)
		} else {
			d1, m1, err := ht.Add(rig.Dg(part[0]), first)
			if err != nil {
				return err
			}
			var m2 []*storage.Mutation
			yd, m2, err = yt.Add(rig.Dg(part[0]), first)
			if err != nil {
				return err
			}
			hd = []hashing.Digest{d1}
			muts = append(m1, m2...)
		}
		if err := store.Mutate(muts, nil); err != nil {
			return err
		}
		for i := range want {
			if !bytes.Equal(hd[i], want[i].HistoryDigest[:]) {
				return fmt.Errorf("call %d: history digest of v%d = %x, reference %x (cache %d)", ci, want[i].Version, hd[i], want[i].HistoryDigest, h.HistCache)
			}
		}
		if !bytes.Equal(yd, want[0].HyperDigest[:]) {
			return fmt.Errorf("call %d: hyper digest %x, reference %x", ci, yd, want[0].HyperDigest)
		}
	}
	rec.Count("snapshots_compared", int64(len(ds)))
	return nil
}

// The reference model's two history variants agree with each other.
func TestRefSelfCheck(t *testing.T) {
	rapid.Check(t, func(rt *rapid.T) {
		n := rapid.IntRange(1, 70).Draw(rt, "n")
		ds := gen.Digests(rt, n, false)
		inc := refmodel.NewHistory()
		for i, d := range ds {
			got := inc.Append(d)
			if want := refmodel.HistoryRoot(ds[:i+1]); got != want {
				rt.Fatalf("incremental and from-scratch reference disagree at v%d", i)
			}
		}
	})
}

// ---------------------------------------------------------------- RocksDB

const ruleRocks = "the balloon-level differential on the durable back-end: a real Balloon on a real RocksDBStore in an executor child; restart point = close balloon + close store + open store + NewBalloon on the same directory (1 case in 8: 1001-2001 events in a few bulks with a reopen before every call, above the 1000-entry page of the cache warm-up); every returned snapshot compared with the reference trees, and the reopened balloon must report the next version. Non-trivial: n>=3 and >= 1 reopen followed by an insertion; distinct = FNV-64 of the history."

func TestRocksBalloonVsRef(t *testing.T) {
	rec := pbt.NewRec("C04", "TestRocksBalloonVsRef", ruleRocks,
		"hyper inner nodes hash right child before left (the order the pinned tree publishes; no document fixes it)",
		"RocksDB 7.8 behind the compat shim is the durable store")
	maxN := pbt.Scale(120, 500)
	pbt.Run(t, rec, func(rt *rapid.T) rig.LogHistory {
		if rapid.IntRange(0, 7).Draw(rt, "page-boundary") == 0 {
			h := rig.DrawBigLog(rt, rapid.SampledFrom([]int{1001, 1100, 2001}).Draw(rt, "big-n"))
			for i := 1; i < len(h.Calls); i++ {
				h.Restarts = append(h.Restarts, i)
			}
			return h
		}
		h := rig.DrawLog(rt, maxN, true, true)
		if len(h.Calls) > 1 && len(h.Restarts) == 0 {
			h.Restarts = []int{rapid.IntRange(1, len(h.Calls)-1).Draw(rt, "reopen")}
		}
		return h
	}, func(h rig.LogHistory, rec *pbt.Rec) error {
		cls := h.Classes()
		rec.Case(h, len(h.Digests) >= 3 && len(h.Restarts) > 0, cls...)
		rec.Sample(len(h.Digests), h)
		st, _, err := rig.RunRocksBalloon(h, true, false)
		rec.Count("snapshots_compared", st.Snapshots)
		rec.Count("reopens", st.Reopens)
		return err
	})
}
