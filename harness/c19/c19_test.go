// C19 — agents alert exactly when verification fails and publish each
// snapshot once.
package c19

import (
	"context"
	"fmt"
	"io"
	"net/http"
	"net/http/httptest"
	"strconv"
	"strings"
	"sync"
	"testing"
	"time"

	"github.com/bbva/qed/api/apihttp"
	"github.com/bbva/qed/balloon"
	"github.com/bbva/qed/balloon/history"
	"github.com/bbva/qed/client"
	"github.com/bbva/qed/cmd"
	"github.com/bbva/qed/crypto/hashing"
	"github.com/bbva/qed/gossip"
	"github.com/bbva/qed/protocol"
	"pgregory.net/rapid"

	"verif/pbt"
	"verif/refmodel"
	"verif/rig"
)

// Tamper is one alteration (or none).
type Tamper struct {
	Where string `json:"where"` // none | gossip | store | log
	Field string `json:"field"` // event | history | hyper | version
	Which string `json:"which"` // first | last (gossip) ; for version: plus1 | minus1 | other
	Op    string `json:"op"`    // log: exists | actual | hist-drop | hist-flip | hyper-flip | hyper-drop | inc-drop | inc-flip | inc-start
	A     int    `json:"a"`
}

type Batch struct {
	First, Size int
	T           Tamper
}

type H struct {
	rig.LogHistory
	Batches []Batch `json:"batches"`
}

const rule = "an honest log (real Balloon behind the real api/apihttp handlers on httptest), the real client.HTTPClient, a never-started gossip agent wired, as `qed agent` wires it, to the REAL gossip.RestSnapshotStore and gossip.SimpleNotifier (one pair per case, as a long-running agent has) talking to a snapshot-store service and an alerts service on httptest (alerts are counted at the alerts endpoint, after a sentinel pushed through the notifier's queue has arrived), and the REAL auditor / monitor task factories (cmd hook); rapid draws logs of distinct events, batches = runs of 1-20 consecutive signed snapshots, and for each batch one alteration or none: gossiped snapshot (first/last) EventDigest / HistoryDigest / HyperDigest flipped or Version +-1 / another version; stored snapshot's HyperDigest / HistoryDigest at the version the task fetches; the log's answer altered by one operator (Exists flipped, ActualVersion changed, a history / hyper / incremental path entry dropped or flipped, Start changed). The harness computes the ground-truth verdict itself (honest proof verified against the PUBLISHED, possibly altered, snapshots). Oracle: no alert on untampered input; ground-truth verdict false => >=1 alert for that batch. A task that cannot fetch what it needs returns an error and is not required to alert. evaluations = tasks run. Non-trivial: a batch of size>=2 at version>=2, or a tampered case whose alteration the task reads. distinct = FNV-64 of (log, batch)."

type memStore struct {
	mu    sync.Mutex
	snaps map[uint64]*protocol.SignedSnapshot
	puts  [][]*protocol.SignedSnapshot
}

func (m *memStore) PutBatch(b *protocol.BatchSnapshots) error {
	m.mu.Lock()
	defer m.mu.Unlock()
	m.puts = append(m.puts, b.Snapshots)
	for _, s := range b.Snapshots {
		m.snaps[s.Snapshot.Version] = s
	}
	return nil
}
func (m *memStore) PutSnapshot(v uint64, s *protocol.SignedSnapshot) error {
	m.mu.Lock()
	defer m.mu.Unlock()
	m.snaps[v] = s
	return nil
}
func (m *memStore) GetRange(a, b uint64) ([]protocol.SignedSnapshot, error) { return nil, nil }
func (m *memStore) GetSnapshot(v uint64) (*protocol.SignedSnapshot, error) {
	m.mu.Lock()
	defer m.mu.Unlock()
	s, ok := m.snaps[v]
	if !ok {
		return nil, fmt.Errorf("no snapshot %d", v)
	}
	c := *s.Snapshot
	return &protocol.SignedSnapshot{Snapshot: &c, Signature: s.Signature}, nil
}
func (m *memStore) DeleteRange(a, b uint64) error { return nil }
func (m *memStore) Count() (uint64, error)        { return uint64(len(m.snaps)), nil }

// services are the two HTTP endpoints an agent talks to besides the log — the
// snapshot store (GET /snapshot?v=, POST /batch, backed by memStore) and the
// alerts service (POST /alert) — plus the REAL clients the agents use for them
// (gossip.RestSnapshotStore, gossip.SimpleNotifier), one pair per case as a
// long-running agent has.
type services struct {
	store              *memStore
	storeSrv, alertSrv *httptest.Server
	mu                 sync.Mutex
	alerts             []string
	rest               *gossip.RestSnapshotStore
	notifier           *gossip.SimpleNotifier
	seq                int
	alertDelay         time.Duration
}

func newServices() *services { return newServicesWith(100, 0) }

// newServicesWith: queue = the notifier's queue size (the product's default is 10),
// alertDelay = how long the alerts service takes to answer one POST.
func newServicesWith(queue int, alertDelay time.Duration) *services {
	sv := &services{store: &memStore{snaps: map[uint64]*protocol.SignedSnapshot{}}}
	mux := http.NewServeMux()
	mux.HandleFunc("/snapshot", func(w http.ResponseWriter, r *http.Request) {
		v, err := strconv.ParseUint(r.URL.Query().Get("v"), 10, 64)
		if err != nil {
			http.Error(w, "bad version", 400)
			return
		}
		ss, err := sv.store.GetSnapshot(v)
		if err != nil {
			http.Error(w, err.Error(), 404)
			return
		}
		out, _ := ss.Encode()
		w.Write(out)
	})
	mux.HandleFunc("/batch", func(w http.ResponseWriter, r *http.Request) {
		body, _ := io.ReadAll(r.Body)
		var b protocol.BatchSnapshots
		if err := b.Decode(body); err != nil {
			http.Error(w, err.Error(), 400)
			return
		}
		sv.store.PutBatch(&b)
	})
	sv.storeSrv = httptest.NewServer(mux)
	sv.alertSrv = httptest.NewServer(http.HandlerFunc(func(w http.ResponseWriter, r *http.Request) {
		body, _ := io.ReadAll(r.Body)
		time.Sleep(alertDelay)
		sv.mu.Lock()
		sv.alerts = append(sv.alerts, string(body))
		sv.mu.Unlock()
	}))
	// generous timeouts: a time-out under load would look like a missing alert
	sv.rest = gossip.NewRestSnapshotStore([]string{sv.storeSrv.URL}, 20*time.Second, 20*time.Second)
	sv.notifier = gossip.NewSimpleNotifier([]string{sv.alertSrv.URL + "/alert"}, queue, 20*time.Second, 20*time.Second, nil)
	sv.notifier.Start()
	sv.alertDelay = alertDelay
	return sv
}

func (sv *services) close() {
	sv.notifier.Stop()
	sv.storeSrv.Close()
	sv.alertSrv.Close()
}

// settle returns the alerts the alerts service received since the last call.
// The notifier posts its queue in order, so a sentinel pushed through the
// same queue marks the point where everything before it has arrived.
func (sv *services) settle() ([]string, error) {
	// first let the queue drain: the sentinel itself must not meet a full queue
	last, since := -1, time.Now()
	for time.Since(since) < 600*time.Millisecond+3*sv.alertDelay {
		sv.mu.Lock()
		n := len(sv.alerts)
		sv.mu.Unlock()
		if n != last {
			last, since = n, time.Now()
		}
		time.Sleep(5 * time.Millisecond)
	}
	sv.seq++
	mark := fmt.Sprintf("harness-sentinel-%d", sv.seq)
	sv.notifier.Alert(mark)
	deadline := time.Now().Add(40 * time.Second)
	for {
		sv.mu.Lock()
		for i, a := range sv.alerts {
			if a == mark {
				got := append([]string(nil), sv.alerts[:i]...)
				sv.alerts = append([]string(nil), sv.alerts[i+1:]...)
				sv.mu.Unlock()
				return got, nil
			}
		}
		sv.mu.Unlock()
		if time.Now().After(deadline) {
			return nil, &pbt.Unsettled{Why: "the alerts service did not receive the harness's sentinel within 40 s"}
		}
		time.Sleep(2 * time.Millisecond)
	}
}

type recNotifier struct {
	mu     sync.Mutex
	alerts []string
}

func (r *recNotifier) Alert(msg string) error {
	r.mu.Lock()
	r.alerts = append(r.alerts, msg)
	r.mu.Unlock()
	return nil
}
func (r *recNotifier) Start() {}
func (r *recNotifier) Stop()  {}
func (r *recNotifier) n() int { r.mu.Lock(); defer r.mu.Unlock(); return len(r.alerts) }

func drawCase(rt *rapid.T, role string) H {
	h := H{LogHistory: rig.DrawLog(rt, 40, true, false)}
	n := len(h.Digests)
	for i, k := 0, rapid.IntRange(2, 10).Draw(rt, "nbatches"); i < k; i++ {
		b := Batch{First: rapid.IntRange(0, n-1).Draw(rt, "first")}
		b.Size = rapid.IntRange(1, min(20, n-b.First)).Draw(rt, "size")
		switch rapid.IntRange(0, 5).Draw(rt, "tail-batch") {
		case 0: // the newest snapshot alone
			b.First, b.Size = n-1, 1
		case 1: // a run that ends with the newest snapshot
			b.Size = n - b.First
			if b.Size > 20 {
				b.First, b.Size = n-20, 20
			}
		}
		t := Tamper{Where: rapid.SampledFrom([]string{"none", "none", "gossip", "gossip", "store", "log"}).Draw(rt, "where")}
		switch t.Where {
		case "gossip":
			t.Field = rapid.SampledFrom([]string{"event", "history", "hyper", "version"}).Draw(rt, "field")
			t.Which = rapid.SampledFrom([]string{"first", "last"}).Draw(rt, "which")
			if t.Field == "version" {
				t.Op = rapid.SampledFrom([]string{"plus1", "minus1", "other"}).Draw(rt, "vop")
			}
		case "store":
			t.Field = rapid.SampledFrom([]string{"hyper", "history"}).Draw(rt, "field")
		case "log":
			if role == "auditor" {
				t.Op = rapid.SampledFrom([]string{"exists", "actual", "hist-drop", "hist-flip", "hyper-flip", "hyper-drop"}).Draw(rt, "lop")
			} else {
				t.Op = rapid.SampledFrom([]string{"inc-drop", "inc-flip", "inc-start"}).Draw(rt, "lop")
			}
		}
		t.A = rapid.IntRange(0, 63).Draw(rt, "a")
		b.T = t
		h.Batches = append(h.Batches, b)
	}
	return h
}

func TestAuditor(t *testing.T) {
	rig.Quiet()
	rec := pbt.NewRec("C19", "TestAuditor", rule, "distinct events only (the property says so)")
	pbt.Run(t, rec, func(rt *rapid.T) H { return drawCase(rt, "auditor") }, func(h H, rec *pbt.Rec) error { return execAgent(h, rec, "auditor") })
}

func TestMonitor(t *testing.T) {
	rig.Quiet()
	rec := pbt.NewRec("C19", "TestMonitor", rule, "distinct events only (the property says so)")
	pbt.Run(t, rec, func(rt *rapid.T) H { return drawCase(rt, "monitor") }, func(h H, rec *pbt.Rec) error { return execAgent(h, rec, "monitor") })
}

func flip(b []byte, a int) []byte {
	c := append([]byte{}, b...)
	if len(c) > 0 {
		c[a%len(c)] ^= 1 << uint(a%8)
	}
	return c
}

func execAgent(h H, rec *pbt.Rec, role string) error {
	b, m, err := h.Build(false)
	if err != nil {
		return err
	}
	n := m.Len()
	api := &rig.API{B: b}
	srv := httptest.NewServer(apihttp.NewApiHttp(api))
	defer srv.Close()
	// one client per batch (below): a failed request marks the only endpoint
	// dead in the client, which would leak from one batch into the next
	newQed := func() (*client.HTTPClient, error) {
		return client.NewSimpleHTTPClient(&http.Client{}, []string{srv.URL}, srv.URL)
	}
	qed, err := newQed()
	if err != nil {
		return &pbt.Unsettled{Why: err.Error()}
	}
	sv := newServices()
	defer sv.close()
	store := sv.store
	signed := make([]*protocol.SignedSnapshot, n)
	for v := 0; v < n; v++ {
		s := protocol.Snapshot(*b.Snaps[v])
		signed[v] = &protocol.SignedSnapshot{Snapshot: &s, Signature: []byte{byte(v), 1, 2}}
	}
	conf := gossip.DefaultConfig()
	conf.BindAddr = "127.0.0.1:7946"
	conf.NodeName = "c19"
	conf.Role = role
	agent, err := gossip.NewDefaultAgent(conf, qed, sv.rest, nil, sv.notifier, nil)
	if err != nil {
		return &pbt.Unsettled{Why: err.Error()}
	}
	var factory gossip.TaskFactory
	if role == "auditor" {
		factory = cmd.VerifAuditorFactory()
	} else {
		factory = cmd.VerifMonitorFactory()
	}
	logHash := pbt.Hash(h.LogHistory)
	cur := uint64(n - 1)
	for bi, bt := range h.Batches {
		// fresh honest store for every batch
		store.mu.Lock()
		store.snaps = map[uint64]*protocol.SignedSnapshot{}
		for v := 0; v < n; v++ {
			store.snaps[uint64(v)] = signed[v]
		}
		store.mu.Unlock()
		api.TamperMembership, api.TamperIncremental = nil, nil
		first, last := bt.First, bt.First+bt.Size-1
		batch := &protocol.BatchSnapshots{}
		for v := first; v <= last; v++ {
			c := *signed[v].Snapshot
			batch.Snapshots = append(batch.Snapshots, &protocol.SignedSnapshot{Snapshot: &c, Signature: signed[v].Signature})
		}
		t := bt.T
		read := false // does the task read what was altered?
		switch t.Where {
		case "gossip":
			tgt := batch.Snapshots[0].Snapshot
			if t.Which == "last" {
				tgt = batch.Snapshots[len(batch.Snapshots)-1].Snapshot
			}
			switch t.Field {
			case "event":
				tgt.EventDigest = flip(tgt.EventDigest, t.A)
				read = role == "auditor" && (t.Which == "first" || bt.Size == 1)
			case "history":
				tgt.HistoryDigest = flip(tgt.HistoryDigest, t.A)
				read = role == "monitor" || t.Which == "first" || bt.Size == 1
			case "hyper":
				tgt.HyperDigest = flip(tgt.HyperDigest, t.A)
			case "version":
				switch t.Op {
				case "plus1":
					tgt.Version++
				case "minus1":
					tgt.Version--
				default:
					tgt.Version = uint64(t.A % n)
				}
				read = role == "monitor" || t.Which == "first" || bt.Size == 1
			}
		case "store":
			// the auditor fetches the stored snapshot of the current version
			s := *signed[cur].Snapshot
			if t.Field == "hyper" {
				s.HyperDigest = flip(s.HyperDigest, t.A)
				read = role == "auditor"
			} else {
				s.HistoryDigest = flip(s.HistoryDigest, t.A)
			}
			store.PutSnapshot(cur, &protocol.SignedSnapshot{Snapshot: &s, Signature: signed[cur].Signature})
		case "log":
			read = true
			switch t.Op {
			case "exists":
				api.TamperMembership = func(p *balloon.MembershipProof) *balloon.MembershipProof { p.Exists = !p.Exists; return p }
			case "actual":
				api.TamperMembership = func(p *balloon.MembershipProof) *balloon.MembershipProof {
					p.ActualVersion = uint64(t.A % n)
					return p
				}
			case "hist-drop", "hist-flip":
				api.TamperMembership = func(p *balloon.MembershipProof) *balloon.MembershipProof {
					if p.HistoryProof == nil || len(p.HistoryProof.AuditPath) == 0 {
						return p
					}
					k := pickKey(p.HistoryProof.AuditPath, t.A)
					if t.Op == "hist-drop" {
						delete(p.HistoryProof.AuditPath, k)
					} else {
						p.HistoryProof.AuditPath[k] = flip(p.HistoryProof.AuditPath[k], t.A)
					}
					return p
				}
			case "hyper-flip", "hyper-drop":
				api.TamperMembership = func(p *balloon.MembershipProof) *balloon.MembershipProof {
					ks := make([]string, 0)
					for k := range p.HyperProof.AuditPath {
						ks = append(ks, k)
					}
					if len(ks) == 0 {
						return p
					}
					sortStrings(ks)
					k := ks[t.A%len(ks)]
					if t.Op == "hyper-drop" {
						delete(p.HyperProof.AuditPath, k)
					} else {
						p.HyperProof.AuditPath[k] = flip(p.HyperProof.AuditPath[k], t.A)
					}
					return p
				}
			case "inc-drop", "inc-flip", "inc-start":
				api.TamperIncremental = func(p *balloon.IncrementalProof) *balloon.IncrementalProof {
					switch t.Op {
					case "inc-start":
						p.Start++
					default:
						if len(p.AuditPath) == 0 {
							return p
						}
						k := pickKey(p.AuditPath, t.A)
						if t.Op == "inc-drop" {
							delete(p.AuditPath, k)
						} else {
							p.AuditPath[k] = flip(p.AuditPath[k], t.A)
						}
					}
					return p
				}
			}
		}
		// ground truth: what an honest check of the published material says
		gq, _ := newQed()
		verdict, fetchable := groundTruth(role, gq, store, batch)
		gq.Close()
		qed.Close()
		if qed, err = newQed(); err != nil {
			return &pbt.Unsettled{Why: err.Error()}
		}
		agent.Qed = qed
		ctx := context.WithValue(context.WithValue(context.Background(), "agent", agent), "batch", batch)
		var taskErr error
		if p, v := pbt.Panics(func() { taskErr = factory.New(ctx)() }); p {
			return fmt.Errorf("batch %d (versions %d..%d, alteration %+v): the %s task panicked: %s", bi, first, last, t, role, v)
		}
		got, err := sv.settle()
		if err != nil {
			return err
		}
		alerts := len(got)
		tag := fmt.Sprintf("batch %d (versions %d..%d of a log at version %d, alteration %+v)", bi, first, last, cur, t)
		if t.Where == "none" && alerts > 0 {
			return fmt.Errorf("%s: the %s raised an alert against an honest log: %q", tag, role, got[len(got)-1])
		}
		if taskErr != nil && alerts == 0 && (strings.Contains(taskErr.Error(), "timeout") || strings.Contains(taskErr.Error(), "deadline")) {
			return &pbt.Unsettled{Why: "a request of the agent timed out: " + taskErr.Error()}
		}
		if fetchable && !verdict && alerts == 0 {
			return fmt.Errorf("%s: verification of the published snapshots fails, but the %s raised no alert (task returned %v)", tag, role, taskErr)
		}
		if fetchable && verdict && alerts > 0 && t.Where == "none" {
			return fmt.Errorf("%s: verification succeeds but the %s alerted", tag, role)
		}
		nt := (bt.Size >= 2 && first >= 2) || (t.Where != "none" && read)
		rec.CaseHash(logHash^pbt.Hash(bt)*1099511628211, nt)
		rec.Class(role+":"+t.Where+":"+t.Field+t.Op, 1)
		if !fetchable {
			rec.Class("not-fetchable", 1)
		} else if !verdict {
			rec.Class("verdict-false", 1)
		}
	}
	qed.Close()
	hs := h
	if len(hs.Batches) > 4 {
		hs.Batches = hs.Batches[:4]
	}
	rec.Sample(n, hs)
	return nil
}

// groundTruth recomputes, from the published material only, whether the
// check the agent is supposed to make succeeds. fetchable=false when the
// material cannot be obtained (then no alert is required).
func groundTruth(role string, qed *client.HTTPClient, store *memStore, batch *protocol.BatchSnapshots) (verdict, fetchable bool) {
	defer func() {
		if recover() != nil {
			verdict, fetchable = false, true // a proof the verifier chokes on does not verify
		}
	}()
	if role == "auditor" {
		s := batch.Snapshots[0].Snapshot
		proof, err := qed.MembershipDigest(s.EventDigest, &s.Version)
		if err != nil {
			return false, false
		}
		stored, err := store.GetSnapshot(proof.CurrentVersion)
		if err != nil {
			return false, false
		}
		return proof.DigestVerify(s.EventDigest, &balloon.Snapshot{HistoryDigest: s.HistoryDigest, HyperDigest: stored.Snapshot.HyperDigest}), true
	}
	f, l := batch.Snapshots[0].Snapshot, batch.Snapshots[len(batch.Snapshots)-1].Snapshot
	proof, err := qed.Incremental(f.Version, l.Version)
	if err != nil {
		// the monitor alerts when it cannot get the proof
		return false, true
	}
	return proof.Verify(&balloon.Snapshot{HistoryDigest: f.HistoryDigest}, &balloon.Snapshot{HistoryDigest: l.HistoryDigest}), true
}

func pickKey(ap history.AuditPath, a int) [10]byte {
	ks := make([][10]byte, 0, len(ap))
	for k := range ap {
		ks = append(ks, k)
	}
	for i := 1; i < len(ks); i++ {
		for j := i; j > 0 && string(ks[j][:]) < string(ks[j-1][:]); j-- {
			ks[j], ks[j-1] = ks[j-1], ks[j]
		}
	}
	return ks[a%len(ks)]
}

func sortStrings(s []string) {
	for i := 1; i < len(s); i++ {
		for j := i; j > 0 && s[j] < s[j-1]; j-- {
			s[j], s[j-1] = s[j-1], s[j]
		}
	}
}

func min(a, b int) int {
	if a < b {
		return a
	}
	return b
}

var _ = hashing.NewSha256Hasher
var _ = refmodel.NewLog

// ---------------------------------------------------------------- publisher

type PH struct {
	N       int      `json:"n"`       // number of distinct signed snapshots
	Batches [][2]int `json:"batches"` // delivered batches: [first, size], overlapping / repeated
}

const rulePub = "publisher: the real publisher task factory (cmd hook) on a never-started agent with its cache and the REAL gossip.RestSnapshotStore posting to a snapshot-store service on httptest (forwarded batches are counted at that endpoint); rapid draws delivery patterns of 1-12 batches over 1-30 signed snapshots: repeats of the same batch, overlapping windows, sub-batches, in any order. Oracle: the union of everything forwarded to the snapshot store equals the set of distinct signatures delivered, and no signature is forwarded twice. Non-trivial: some snapshot is delivered in >=2 batches. distinct = FNV-64 of the pattern."

func TestPublisher(t *testing.T) {
	rig.Quiet()
	rec := pbt.NewRec("C19", "TestPublisher", rulePub)
	pbt.Run(t, rec, func(rt *rapid.T) PH {
		h := PH{N: rapid.IntRange(1, 30).Draw(rt, "n")}
		for i, k := 0, rapid.IntRange(1, 12).Draw(rt, "nb"); i < k; i++ {
			if len(h.Batches) > 0 && rapid.IntRange(0, 3).Draw(rt, "repeat") == 0 {
				h.Batches = append(h.Batches, h.Batches[rapid.IntRange(0, len(h.Batches)-1).Draw(rt, "which")])
				continue
			}
			f := rapid.IntRange(0, h.N-1).Draw(rt, "first")
			h.Batches = append(h.Batches, [2]int{f, rapid.IntRange(1, min(20, h.N-f)).Draw(rt, "size")})
		}
		return h
	}, func(h PH, rec *pbt.Rec) error {
		sv := newServices()
		defer sv.close()
		store := sv.store
		conf := gossip.DefaultConfig()
		conf.BindAddr = "127.0.0.1:7946"
		conf.NodeName = "c19p"
		conf.Role = "publisher"
		agent, err := gossip.NewDefaultAgent(conf, nil, sv.rest, nil, sv.notifier, nil)
		if err != nil {
			return &pbt.Unsettled{Why: err.Error()}
		}
		factory := cmd.VerifPublisherFactory()
		delivered := map[string]int{}
		for _, bt := range h.Batches {
			batch := &protocol.BatchSnapshots{}
			for v := bt[0]; v < bt[0]+bt[1]; v++ {
				sig := []byte(fmt.Sprintf("signature-of-%d", v))
				batch.Snapshots = append(batch.Snapshots, &protocol.SignedSnapshot{Snapshot: &protocol.Snapshot{Version: uint64(v), EventDigest: []byte{byte(v)}}, Signature: sig})
				delivered[string(sig)]++
			}
			ctx := context.WithValue(context.WithValue(context.Background(), "agent", agent), "batch", batch)
			if p, v := pbt.Panics(func() { factory.New(ctx)() }); p {
				return fmt.Errorf("the publisher task panicked on batch %v: %s", bt, v)
			}
		}
		forwarded := map[string]int{}
		for _, put := range store.puts {
			for _, s := range put {
				forwarded[string(s.Signature)]++
			}
		}
		for sig, n := range forwarded {
			if n > 1 {
				return fmt.Errorf("signed snapshot %q was forwarded to the snapshot store %d times", sig, n)
			}
			if delivered[sig] == 0 {
				return fmt.Errorf("the publisher forwarded a snapshot it never received: %q", sig)
			}
		}
		nt := false
		for sig, n := range delivered {
			if forwarded[sig] == 0 {
				return fmt.Errorf("signed snapshot %q was delivered %d times but never forwarded to the snapshot store", sig, n)
			}
			if n >= 2 {
				nt = true
			}
		}
		rec.Case(h, nt)
		rec.Count("store_puts", int64(len(store.puts)))
		rec.Sample(len(h.Batches), h)
		return nil
	})
}
