package c19

import (
	"context"
	"fmt"
	"net/http"
	"net/http/httptest"
	"sync"
	"testing"
	"time"

	"github.com/bbva/qed/api/apihttp"
	"github.com/bbva/qed/client"
	"github.com/bbva/qed/cmd"
	"github.com/bbva/qed/gossip"
	"github.com/bbva/qed/protocol"
	"github.com/prometheus/client_golang/prometheus"
	"pgregory.net/rapid"

	"verif/pbt"
	"verif/rig"
)

// PB is one gossiped batch of the pipeline unit.
type PB struct {
	First, Size int
	Alter       string `json:"alter"` // "" | event | history : which digest of the first snapshot is flipped
	A           int    `json:"a"`
}

// PipeH: batches delivered through the agent's real receive path.
type PipeH struct {
	rig.LogHistory
	Role   string `json:"role"`
	Groups [][]PB `json:"groups"` // batches of a group arrive back to back (within one task-manager tick)
	TickMs int    `json:"tick_ms"`
	// alert storm: the last group has Storm altered batches, the notifier has the product's
	// default queue (10 entries) and the alerts service takes AlertDelayMs per alert
	Storm        int `json:"storm,omitempty"`
	AlertDelayMs int `json:"alert_delay_ms,omitempty"`
}

const rulePipe = "the agent's REAL receive path: gossip messages are published on the incoming bus of a never-started agent wired like `qed agent` (real BatchProcessor with the real auditor / monitor task factory, real SimpleTasksManager started with a 20-100 ms tick, real RestSnapshotStore and SimpleNotifier over httptest services, real client against the real API handlers over an honest log). Batches arrive in groups of 1-3 back to back, i.e. within one tick, each honest or with the EventDigest / HistoryDigest of its first snapshot flipped; one case in three ends with an alert storm: 11-30 altered batches at once, a notifier with the product's default queue of 10 and an alerts service that takes 0-250 ms per alert. The harness computes each batch's ground-truth verdict from the published material. Oracle per group, after every task of the group has run and the notifier's queue has drained: no alert if every batch of the group is honest; at least as many alerts as batches whose verification fails. Non-trivial: a group of >=2 distinct batches of which at least one is altered. distinct = FNV-64 of the case."

type doneFactory struct {
	inner gossip.TaskFactory
	mu    *sync.Mutex
	done  *int
}

func (d doneFactory) New(ctx context.Context) gossip.Task {
	t := d.inner.New(ctx)
	return func() error {
		err := t()
		d.mu.Lock()
		*d.done++
		d.mu.Unlock()
		return err
	}
}
func (d doneFactory) Metrics() []prometheus.Collector { return nil }

type drain struct{}

func (drain) Subscribe(id int, ch <-chan *gossip.Message) {
	go func() {
		for range ch {
		}
	}()
}

func TestPipeline(t *testing.T) {
	rig.Quiet()
	rec := pbt.NewRec("C19", "TestPipeline", rulePipe, "distinct events only (the property says so)")
	pbt.Run(t, rec, func(rt *rapid.T) PipeH {
		h := PipeH{LogHistory: rig.DrawLog(rt, 30, true, false), Role: rapid.SampledFrom([]string{"auditor", "monitor"}).Draw(rt, "role"), TickMs: rapid.SampledFrom([]int{20, 50, 100}).Draw(rt, "tick")}
		n := len(h.Digests)
		for g, ng := 0, rapid.IntRange(1, 4).Draw(rt, "ngroups"); g < ng; g++ {
			var grp []PB
			for i, k := 0, rapid.SampledFrom([]int{1, 2, 2, 2, 3}).Draw(rt, "group"); i < k; i++ {
				b := PB{First: rapid.IntRange(0, n-1).Draw(rt, "first")}
				b.Size = rapid.IntRange(1, min(8, n-b.First)).Draw(rt, "size")
				b.Alter = rapid.SampledFrom([]string{"", "", "event", "history"}).Draw(rt, "alter")
				b.A = rapid.IntRange(0, 255).Draw(rt, "a")
				grp = append(grp, b)
			}
			h.Groups = append(h.Groups, grp)
		}
		if rapid.IntRange(0, 2).Draw(rt, "storm") == 0 {
			h.Storm = rapid.IntRange(11, 30).Draw(rt, "storm-size")
			h.AlertDelayMs = rapid.SampledFrom([]int{0, 30, 120, 250}).Draw(rt, "alert-delay")
			var grp []PB
			for i := 0; i < h.Storm; i++ {
				b := PB{First: rapid.IntRange(0, n-1).Draw(rt, "first"), Alter: rapid.SampledFrom([]string{"event", "history"}).Draw(rt, "alter"), A: i}
				b.Size = rapid.IntRange(1, min(8, n-b.First)).Draw(rt, "size")
				grp = append(grp, b)
			}
			h.Groups = append(h.Groups, grp)
		}
		return h
	}, execPipeline)
}

func execPipeline(h PipeH, rec *pbt.Rec) error {
	b, m, err := h.Build(false)
	if err != nil {
		return err
	}
	n := m.Len()
	api := &rig.API{B: b}
	srv := httptest.NewServer(apihttp.NewApiHttp(api))
	defer srv.Close()
	newQed := func() (*client.HTTPClient, error) {
		return client.NewSimpleHTTPClient(&http.Client{}, []string{srv.URL}, srv.URL)
	}
	sv := newServices()
	if h.Storm > 0 {
		sv.close()
		sv = newServicesWith(gossip.DefaultSimpleNotifierConfig().QueueSize, time.Duration(h.AlertDelayMs)*time.Millisecond)
	}
	defer sv.close()
	signed := make([]*protocol.SignedSnapshot, n)
	for v := 0; v < n; v++ {
		s := protocol.Snapshot(*b.Snaps[v])
		signed[v] = &protocol.SignedSnapshot{Snapshot: &s, Signature: []byte{byte(v), 1, 2}}
		sv.store.PutSnapshot(uint64(v), signed[v])
	}
	qed, err := newQed()
	if err != nil {
		return &pbt.Unsettled{Why: err.Error()}
	}
	defer func() { qed.Close() }()
	tasks := gossip.NewSimpleTasksManager(time.Duration(h.TickMs)*time.Millisecond, 10)
	conf := gossip.DefaultConfig()
	conf.BindAddr = "127.0.0.1:7946"
	conf.NodeName = "c19pipe"
	conf.Role = h.Role
	conf.CacheSize = 1 << 20
	agent, err := gossip.NewDefaultAgent(conf, qed, sv.rest, tasks, sv.notifier, nil)
	if err != nil {
		return &pbt.Unsettled{Why: err.Error()}
	}
	var inner gossip.TaskFactory
	if h.Role == "auditor" {
		inner = cmd.VerifAuditorFactory()
	} else {
		inner = cmd.VerifMonitorFactory()
	}
	mu := &sync.Mutex{}
	done := 0
	bp := gossip.NewBatchProcessor(agent, []gossip.TaskFactory{doneFactory{inner, mu, &done}}, nil)
	agent.In.Subscribe(gossip.BatchMessageType, bp, 255)
	defer bp.Stop()
	agent.Out.Subscribe(gossip.BatchMessageType, drain{}, 1<<10)
	tasks.Start()
	defer tasks.Stop()

	seen := map[string]bool{} // the processor runs tasks once per distinct batch
	nt := false
	for gi, grp := range h.Groups {
		// a fresh client per group: a failed request marks the only endpoint dead inside the client
		qed.Close()
		if qed, err = newQed(); err != nil {
			return &pbt.Unsettled{Why: err.Error()}
		}
		agent.Qed = qed
		expectTasks, failing, altered := 0, 0, 0
		var payloads [][]byte
		var desc []string
		for _, pb := range grp {
			first := pb.First % n
			size := pb.Size
			if first+size > n {
				size = n - first
			}
			batch := &protocol.BatchSnapshots{}
			for v := first; v < first+size; v++ {
				c := *signed[v].Snapshot
				batch.Snapshots = append(batch.Snapshots, &protocol.SignedSnapshot{Snapshot: &c, Signature: signed[v].Signature})
			}
			switch pb.Alter {
			case "event":
				batch.Snapshots[0].Snapshot.EventDigest = flip(batch.Snapshots[0].Snapshot.EventDigest, pb.A)
			case "history":
				batch.Snapshots[0].Snapshot.HistoryDigest = flip(batch.Snapshots[0].Snapshot.HistoryDigest, pb.A)
			}
			payload, err := batch.Encode()
			if err != nil {
				return err
			}
			payload = append([]byte{}, payload...)
			if seen[string(payload)] {
				continue // a redelivery: the processor drops it (C18)
			}
			seen[string(payload)] = true
			gq, _ := newQed()
			verdict, fetchable := groundTruth(h.Role, gq, sv.store, batch)
			gq.Close()
			if !fetchable {
				return &pbt.Unsettled{Why: "ground truth not computable"}
			}
			expectTasks++
			if !verdict {
				failing++
			}
			if pb.Alter != "" {
				altered++
			}
			payloads = append(payloads, payload)
			desc = append(desc, fmt.Sprintf("versions %d..%d alter=%q verifies=%v", first, first+size-1, pb.Alter, verdict))
		}
		if len(payloads) == 0 {
			continue
		}
		mu.Lock()
		before := done
		mu.Unlock()
		for _, p := range payloads {
			agent.In.Publish(&gossip.Message{Kind: gossip.BatchMessageType, TTL: 1, Payload: p, From: gossip.NewPeer("peer", "127.0.0.1", 1, "server")})
		}
		deadline := time.Now().Add(60 * time.Second)
		for {
			mu.Lock()
			d := done - before
			mu.Unlock()
			if d >= expectTasks {
				break
			}
			if time.Now().After(deadline) {
				return &pbt.Unsettled{Why: fmt.Sprintf("group %d: %d of %d tasks ran within 60 s", gi, d, expectTasks)}
			}
			time.Sleep(2 * time.Millisecond)
		}
		got, err := sv.settle()
		if err != nil {
			return err
		}
		tag := fmt.Sprintf("group %d of %d batches arriving back to back at a %s (task tick %d ms; log at version %d): %v", gi, len(payloads), h.Role, h.TickMs, n-1, desc)
		if altered == 0 && failing == 0 && len(got) > 0 {
			return fmt.Errorf("%s: an alert was raised against an honest log: %q", tag, got[0])
		}
		if len(got) < failing {
			return fmt.Errorf("%s: verification fails for %d of the batches but the alerts service received %d alert(s)", tag, failing, len(got))
		}
		if len(payloads) >= 2 && altered > 0 {
			nt = true
		}
		if len(payloads) > 10 {
			rec.Class(fmt.Sprintf("alert-storm:delay-%dms", h.AlertDelayMs), 1)
		} else {
			rec.Class(fmt.Sprintf("%s:group-of-%d", h.Role, len(payloads)), 1)
		}
		rec.Count("batches", int64(len(payloads)))
	}
	rec.Case(h, nt)
	rec.Sample(len(h.Groups), h)
	return nil
}
