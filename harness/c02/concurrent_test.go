package c02

import (
	"fmt"
	"sync"
	"sync/atomic"
	"testing"

	"github.com/bbva/qed/balloon"
	"github.com/bbva/qed/crypto/hashing"
	"github.com/bbva/qed/protocol"
	"pgregory.net/rapid"

	"verif/adv"
	"verif/pbt"
	"verif/rig"
)

// VH: one verifier process checking genuine and forged answers at the same time.
type VH struct {
	rig.LogHistory
	Ev    int `json:"ev"`
	Q     int `json:"q"`
	Bit   int `json:"bit"`   // which bit of the event's digest the never-inserted digest differs in
	Good  int `json:"good"`  // goroutines verifying the genuine answer
	Bad   int `json:"bad"`   // goroutines verifying the replayed answer for the never-inserted digest
	Iters int `json:"iters"` // verifications per goroutine
}

const ruleConc = "one verifier process under concurrency (built with the race detector): for a drawn log and a drawn (event, query version), 2-8 goroutines verify the genuine answer over and over while 1-3 goroutines verify the same answer replayed for a never-inserted digest (the event's digest with one deep bit flipped, answer renamed to it: the hyper half holds, only the history leaf binds the digest), each decoding the wire form and verifying against the authentic snapshots as a client does, 200-1500 times. Oracle: the replayed answer is never accepted, the genuine one always is; the race detector must stay silent about QED code. Non-trivial: always (>=2 goroutines on the same (event, version)). distinct = FNV-64 of the case."

var concRuns int

func TestConcurrentVerifiers(t *testing.T) {
	rec := pbt.NewRec("C02", "TestConcurrentVerifiers", ruleConc, "schedules are whatever the runtime produces; the race detector reports the unsynchronised accesses it observes")
	pbt.Run(t, rec, func(rt *rapid.T) VH {
		h := VH{LogHistory: rig.DrawLog(rt, 20, true, false)}
		n := len(h.Ds())
		h.Ev = rapid.IntRange(0, n-1).Draw(rt, "ev")
		h.Q = rapid.IntRange(h.Ev, n-1).Draw(rt, "q")
		h.Bit = rapid.IntRange(30, 255).Draw(rt, "bit")
		h.Good = rapid.IntRange(2, 8).Draw(rt, "good")
		h.Bad = rapid.IntRange(1, 3).Draw(rt, "bad")
		h.Iters = rapid.IntRange(200, 1500).Draw(rt, "iters")
		return h
	}, execConc)
}

func execConc(h VH, rec *pbt.Rec) error {
	concRuns++
	b, m, err := h.Build(false)
	if err != nil {
		return err
	}
	w := adv.NewWorld(b, m, h.Ds(), nil)
	ev, q := h.Ev%w.N, h.Q%w.N
	if q < ev {
		q = ev
	}
	genuine, err := w.Genuine(ev, q)
	if err != nil {
		return &pbt.Unsettled{Why: "no genuine answer: " + err.Error()}
	}
	asked := w.Ds[ev]
	forgedFor := asked
	forgedFor[h.Bit/8] ^= 1 << uint(7-h.Bit%8)
	for _, d := range w.Ds {
		if d == forgedFor {
			return &pbt.Unsettled{Why: "the near miss happens to be a member"}
		}
	}
	forged := adv.CloneMR(genuine)
	forged.KeyDigest = append([]byte{}, forgedFor[:]...)
	snap := &balloon.Snapshot{
		HistoryDigest: b.Snaps[genuine.QueryVersion].HistoryDigest,
		HyperDigest:   b.Snaps[genuine.CurrentVersion].HyperDigest,
	}
	var acceptedForged, rejectedGenuine, panics int64
	var wg sync.WaitGroup
	verify := func(mr *protocol.MembershipResult, d []byte) (ok bool) {
		defer func() {
			if recover() != nil {
				atomic.AddInt64(&panics, 1)
				ok = false
			}
		}()
		return protocol.ToBalloonProof(adv.CloneMR(mr), hashing.NewSha256Hasher).DigestVerify(d, snap)
	}
	start := make(chan struct{})
	for g := 0; g < h.Good; g++ {
		wg.Add(1)
		go func() {
			defer wg.Done()
			<-start
			for i := 0; i < h.Iters; i++ {
				if !verify(genuine, asked[:]) {
					atomic.AddInt64(&rejectedGenuine, 1)
				}
			}
		}()
	}
	for g := 0; g < h.Bad; g++ {
		wg.Add(1)
		go func() {
			defer wg.Done()
			<-start
			for i := 0; i < h.Iters; i++ {
				if verify(forged, forgedFor[:]) {
					atomic.AddInt64(&acceptedForged, 1)
				}
			}
		}()
	}
	close(start)
	wg.Wait()
	tag := fmt.Sprintf("event %d at query version %d of a log of %d, %d+%d verifier goroutines x %d", ev, q, w.N, h.Good, h.Bad, h.Iters)
	if acceptedForged > 0 {
		return fmt.Errorf("%s: the genuine answer replayed for the never-inserted digest %x… was ACCEPTED %d times while genuine answers were being verified in the same process", tag, forgedFor[:4], acceptedForged)
	}
	if rejectedGenuine > 0 {
		return fmt.Errorf("%s: the genuine answer was rejected %d times while other answers were being verified in the same process", tag, rejectedGenuine)
	}
	if panics > 0 {
		return fmt.Errorf("%s: %d verifications panicked", tag, panics)
	}
	rec.Count("verifications", int64((h.Good+h.Bad)*h.Iters))
	rec.Case([]interface{}{h, concRuns}, true)
	rec.Sample(h.Good+h.Bad, map[string]int{"ev": ev, "q": q, "n": w.N, "good": h.Good, "bad": h.Bad, "iters": h.Iters})
	return nil
}
