package c02

import (
	"encoding/json"
	"fmt"
	"net/http"
	"net/http/httptest"
	"sync"
	"testing"

	"github.com/bbva/qed/client"
	"github.com/bbva/qed/protocol"
	"pgregory.net/rapid"

	"verif/adv"
	"verif/gen"
	"verif/pbt"
	"verif/refmodel"
	"verif/rig"
)

const ruleClient = "client tier: the same candidate answers (genuine answers of a real log under 0-2 operators, or replayed unaltered as the answer to a query about ANOTHER digest: another member, a never-inserted digest, one sharing a member's shortcut-leaf prefix) are served by a scripted QED server to the real client.HTTPClient, whose MembershipAutoVerify fetches the authentic snapshots from a snapshot store and gives the verdict a user sees. Oracle as in TestSoundness: true => the answer claims existence of the ASKED digest at a version <= the queried one where that digest really is. evaluations = auto-verifications. Non-trivial: the claim is false for the asked digest although the answer itself is genuine for some digest, or altered with a sub-proof still valid. distinct = FNV-64 of (log, candidate)."

func TestAutoVerify(t *testing.T) {
	rig.Quiet()
	rec := pbt.NewRec("C02", "TestAutoVerify", ruleClient, "the snapshot store is honest (authentic snapshots); the QED server is the adversary")
	ncand := pbt.Scale(40, 120)
	pbt.Run(t, rec, func(rt *rapid.T) H {
		h := H{LogHistory: rig.DrawLog(rt, 24, true, false)}
		ds := h.Ds()
		n := len(ds)
		for len(h.NonMembers) < 3 {
			var d refmodel.D
			if rapid.Bool().Draw(rt, "share") {
				d = ds[rapid.IntRange(0, n-1).Draw(rt, "of")]
				k := rapid.OneOf(rapid.IntRange(0, 40), rapid.IntRange(41, 255)).Draw(rt, "bit")
				d[k/8] ^= 1 << uint(7-k%8)
			} else {
				copy(d[:], rapid.SliceOfN(rapid.Byte(), 32, 32).Draw(rt, "rnd"))
			}
			dup := false
			for _, x := range ds {
				dup = dup || x == d
			}
			if !dup {
				h.NonMembers = append(h.NonMembers, gen.Hex(d))
			}
		}
		pool := n + len(h.NonMembers)
		for i := 0; i < ncand; i++ {
			c := adv.Cand{Ev: rapid.IntRange(0, n-1).Draw(rt, "ev"), Ask: -1}
			c.Q = rapid.IntRange(c.Ev, n-1).Draw(rt, "q")
			switch rapid.IntRange(0, 4).Draw(rt, "style") {
			case 4: // replayed for a never-inserted digest next to its own (same hyper subtree), usually with on-path help
				c.Near = 1 + rapid.OneOf(rapid.IntRange(24, 60), rapid.IntRange(0, 255)).Draw(rt, "near-bit")
				if rapid.IntRange(0, 3).Draw(rt, "onpath") != 0 {
					c.Ops = append(c.Ops, adv.Op{Kind: "hist-onpath", A: rapid.IntRange(0, 63).Draw(rt, "a"), B: rapid.IntRange(0, 63).Draw(rt, "b")})
				}
			case 0: // a genuine answer replayed for another digest
				c.Ask = rapid.IntRange(0, pool-1).Draw(rt, "ask")
			case 1: // altered answer about its own digest
				for j, k := 0, rapid.IntRange(1, 2).Draw(rt, "nops"); j < k; j++ {
					c.Ops = append(c.Ops, adv.Op{Kind: rapid.SampledFrom(adv.OpKinds).Draw(rt, "op"), A: rapid.IntRange(0, 63).Draw(rt, "a"), B: rapid.IntRange(0, 63).Draw(rt, "b")})
				}
			case 2: // altered and replayed
				c.Ask = rapid.IntRange(0, pool-1).Draw(rt, "ask")
				c.Ops = append(c.Ops, adv.Op{Kind: rapid.SampledFrom(adv.OpKinds).Draw(rt, "op"), A: rapid.IntRange(0, 63).Draw(rt, "a"), B: rapid.IntRange(0, 63).Draw(rt, "b")})
			}
			h.Cands = append(h.Cands, c)
		}
		return h
	}, execAuto)
}

func execAuto(h H, rec *pbt.Rec) error {
	b, m, err := h.Build(false)
	if err != nil {
		return err
	}
	var nm []refmodel.D
	for _, s := range h.NonMembers {
		nm = append(nm, gen.UnHex(s))
	}
	w := adv.NewWorld(b, m, h.Ds(), nm)
	var mu sync.Mutex
	var next *protocol.MembershipResult
	srv := httptest.NewServer(http.HandlerFunc(func(rw http.ResponseWriter, r *http.Request) {
		switch r.URL.Path {
		case "/proofs/digest-membership", "/proofs/membership":
			mu.Lock()
			out, _ := json.Marshal(next)
			mu.Unlock()
			rw.Write(out)
		case "/snapshot":
			var v uint64
			fmt.Sscanf(r.URL.Query().Get("v"), "%d", &v)
			if v >= uint64(len(b.Snaps)) {
				http.Error(rw, "no such snapshot", 404)
				return
			}
			s := protocol.Snapshot(*b.Snaps[v])
			out, _ := json.Marshal(&protocol.SignedSnapshot{Snapshot: &s, Signature: []byte{1}})
			rw.Write(out)
		default:
			http.Error(rw, "nope", 404)
		}
	}))
	defer srv.Close()
	logHash := pbt.Hash(h.LogHistory)
	for ci, c := range h.Cands {
		di := c.Ev % w.N
		q := c.Q % w.N
		mr, err := w.Genuine(di, q)
		if err != nil {
			continue
		}
		for _, op := range c.Ops {
			w.Apply(mr, op)
		}
		asked := w.Pool(di)
		if c.Ask >= 0 {
			asked = w.Pool(c.Ask)
		} else if c.Near > 0 {
			k := (c.Near - 1) % 256
			asked[k/8] ^= 1 << uint(7-k%8)
			if c.Near%5 != 0 { // the adversary's best play: the answer names the digest that was asked
				mr.KeyDigest = append([]byte{}, asked[:]...)
			}
		}
		mu.Lock()
		next = mr
		mu.Unlock()
		// a fresh client per candidate: a 404 from the snapshot store marks nothing, but keep cases independent
		cl, err := client.NewSimpleHTTPClient(&http.Client{}, []string{srv.URL}, srv.URL)
		if err != nil {
			return &pbt.Unsettled{Why: err.Error()}
		}
		qq := mr.QueryVersion
		var ok bool
		var verr error
		if p, v := pbt.Panics(func() { ok, verr = cl.MembershipAutoVerify(rig.Dg(asked), &qq) }); p {
			ok, verr = false, fmt.Errorf("panic: %s", v) // a crash of the client is C12's business
		}
		cl.Close()
		truthful := mr.Exists && mr.ActualVersion <= mr.QueryVersion && mr.ActualVersion < uint64(w.N) && w.Ds[mr.ActualVersion] == asked
		if ok && verr == nil && !truthful {
			return fmt.Errorf("candidate %d (genuine answer for event %d at version %d, ops=%v, served as the answer to a query about digest %x…): client.MembershipAutoVerify returns true although that digest %s (answer: Exists=%v Actual=%d Query=%d Current=%d KeyDigest=%x…)",
				ci, di, q, c.Ops, asked[:4], whyFalse(mr, asked, w), mr.Exists, mr.ActualVersion, mr.QueryVersion, mr.CurrentVersion, mr.KeyDigest[:min(4, len(mr.KeyDigest))])
		}
		nt := !truthful && (len(c.Ops) == 0 || c.Ask >= 0 || c.Near > 0)
		rec.CaseHash(logHash^pbt.Hash(c)*1099511628211, nt)
		if c.Ask >= 0 && len(c.Ops) == 0 {
			rec.Class("replayed-for-another-digest", 1)
		}
		if ok {
			rec.Count("accepted_true_claims", 1)
		} else {
			rec.Count("rejected", 1)
		}
	}
	hs := h
	if len(hs.Cands) > 5 {
		hs.Cands = hs.Cands[:5]
	}
	rec.Sample(len(h.Digests), hs)
	return nil
}

func whyFalse(mr *protocol.MembershipResult, asked refmodel.D, w *adv.World) string {
	if !mr.Exists {
		return "is claimed absent"
	}
	if mr.ActualVersion >= uint64(w.N) || w.Ds[mr.ActualVersion] != asked {
		if _, ok := w.M.Hyper[asked]; !ok {
			return "was never inserted"
		}
		return fmt.Sprintf("is not the event inserted at version %d", mr.ActualVersion)
	}
	return "was inserted later than the queried version"
}

func min(a, b int) int {
	if a < b {
		return a
	}
	return b
}
