// C02 — a membership verification that succeeds is always a true membership
// (soundness of the client verifier against an adversarial server).
package c02

import (
	"bytes"
	"fmt"
	"testing"

	"github.com/bbva/qed/balloon"
	"github.com/bbva/qed/crypto/hashing"
	"github.com/bbva/qed/protocol"
	"pgregory.net/rapid"

	"verif/adv"
	"verif/gen"
	"verif/pbt"
	"verif/refmodel"
	"verif/rig"
)

type H struct {
	rig.LogHistory
	NonMembers []string   `json:"non_members"`
	Cands      []adv.Cand `json:"cands"`
}

const rule = "rapid-drawn logs (n<=64) and, per log, drawn candidate answers = genuine wire-form answers (members at every (e,q), honest answers for non-members incl. digests sharing a member's shortcut-leaf prefix) under 0-3 operators {flip Exists; set Actual/Query/Current version to 0,+-1,another event's version,q+1,current+1,2^63-1,2^64-1; replace KeyDigest; drop/bit-flip/rename/duplicate-under-new-key a history or hyper audit-path entry; drop up to 3 entries; splice the history (or hyper) part of another genuine answer; add an entry for a node ON the path from the claimed leaf to the root carrying that node's true hash (the root's is the public history digest)}, asked about the same digest, another digest of the pool, or a never-inserted near miss of the base event (one bit flipped, usually deep enough to stay in the same hyper subtree, where the hyper half of the genuine answer still verifies); verified as a client does against authentic snapshots (history digest of the answer's QueryVersion, hyper digest of its CurrentVersion; or the selection of client.MembershipAutoVerify). Oracle: accept => Exists and ActualVersion<=QueryVersion and events[ActualVersion]==asked digest. evaluations = candidates checked. Non-trivial: the candidate's claim is false and at least one of its two sub-proofs verifies in isolation; distinct = FNV-64 of (log, candidate)."

func TestSoundness(t *testing.T) {
	rec := pbt.NewRec("C02", "TestSoundness", rule,
		"adversary is limited to the operator grammar over values the server knows; SHA-256 collisions out of scope",
		"answers naming versions for which no snapshot exists cannot be checked by a client and count as not accepted",
		"a panic of the verifier counts as 'not accepted' (C12)")
	maxN := pbt.Scale(48, 64)
	ncand := pbt.Scale(250, 600)
	pbt.Run(t, rec, func(rt *rapid.T) H {
		h := H{LogHistory: rig.DrawLog(rt, maxN, rapid.IntRange(0, 5).Draw(rt, "distinct") != 0, false)}
		ds := h.Ds()
		n := len(ds)
		// non-members: random, and prefix-sharing with a member at a drawn depth
		nnm := rapid.IntRange(2, 6).Draw(rt, "nnm")
		seen := map[refmodel.D]bool{}
		for _, d := range ds {
			seen[d] = true
		}
		for len(h.NonMembers) < nnm {
			var d refmodel.D
			if rapid.Bool().Draw(rt, "share") {
				d = ds[rapid.IntRange(0, n-1).Draw(rt, "of")]
				k := rapid.OneOf(rapid.IntRange(0, 40), rapid.IntRange(41, 255)).Draw(rt, "bit")
				d[k/8] ^= 1 << uint(7-k%8)
			} else {
				copy(d[:], rapid.SliceOfN(rapid.Byte(), 32, 32).Draw(rt, "rnd"))
			}
			if !seen[d] {
				seen[d] = true
				h.NonMembers = append(h.NonMembers, gen.Hex(d))
			}
		}
		pool := n + len(h.NonMembers)
		for i := 0; i < ncand; i++ {
			var c adv.Cand
			if rapid.IntRange(0, 4).Draw(rt, "base") == 0 {
				c.Ev = -1
				c.NonMember = rapid.IntRange(0, len(h.NonMembers)-1).Draw(rt, "nm")
				c.Q = rapid.IntRange(0, n-1).Draw(rt, "q")
			} else {
				c.Ev = rapid.IntRange(0, n-1).Draw(rt, "ev")
				c.Q = rapid.IntRange(c.Ev, n-1).Draw(rt, "q")
			}
			nops := rapid.SampledFrom([]int{0, 1, 1, 1, 1, 2, 2, 3}).Draw(rt, "nops")
			for j := 0; j < nops; j++ {
				c.Ops = append(c.Ops, adv.Op{
					Kind: rapid.SampledFrom(adv.OpKinds).Draw(rt, "op"),
					A:    rapid.IntRange(0, 63).Draw(rt, "a"),
					B:    rapid.IntRange(0, 63).Draw(rt, "b"),
				})
			}
			c.Ask = -1
			if rapid.IntRange(0, 2).Draw(rt, "askother") == 0 {
				c.Ask = rapid.IntRange(0, pool-1).Draw(rt, "ask")
			}
			if c.Ev >= 0 && c.Ask < 0 && rapid.IntRange(0, 3).Draw(rt, "near") == 0 {
				c.Near = 1 + rapid.OneOf(rapid.IntRange(24, 60), rapid.IntRange(0, 255)).Draw(rt, "near-bit")
				if rapid.Bool().Draw(rt, "near-onpath") {
					c.Ops = append(c.Ops, adv.Op{Kind: "hist-onpath", A: rapid.IntRange(0, 63).Draw(rt, "a"), B: rapid.IntRange(0, 63).Draw(rt, "b")})
				}
			}
			c.AutoSnap = rapid.IntRange(0, 3).Draw(rt, "auto") == 0
			h.Cands = append(h.Cands, c)
		}
		return h
	}, exec)
}

func verdict(f func() bool) (ok bool) {
	defer func() {
		if recover() != nil {
			ok = false
		}
	}()
	return f()
}

func exec(h H, rec *pbt.Rec) error {
	b, m, err := h.Build(false)
	if err != nil {
		return err
	}
	var nm []refmodel.D
	for _, s := range h.NonMembers {
		nm = append(nm, gen.UnHex(s))
	}
	w := adv.NewWorld(b, m, h.Ds(), nm)
	logHash := pbt.Hash(h.LogHistory)
	var accepted, rejected, uncheckable int64
	for ci, c := range h.Cands {
		di := c.Ev
		if c.Ev < 0 {
			di = w.N + c.NonMember%len(w.NM)
		} else {
			di = c.Ev % w.N
		}
		q := c.Q % w.N
		mr, err := w.Genuine(di, q)
		if err != nil {
			// re-inserted events legitimately error below their reported version
			continue
		}
		for _, op := range c.Ops {
			w.Apply(mr, op)
		}
		asked := w.Pool(di)
		if c.Ask >= 0 {
			asked = w.Pool(c.Ask)
		} else if c.Near > 0 {
			k := (c.Near - 1) % 256
			asked[k/8] ^= 1 << uint(7-k%8)
			if c.Near%5 != 0 { // the adversary's best play: the answer names the digest that was asked
				mr.KeyDigest = append([]byte{}, asked[:]...)
			}
			rec.Class("ask:near-miss-of-the-base-event", 1)
		}
		// the client needs authentic snapshots for the versions the answer names
		if mr.QueryVersion >= uint64(w.N) || mr.CurrentVersion >= uint64(w.N) {
			uncheckable++
			rec.CaseHash(0, false)
			continue
		}
		snap := &balloon.Snapshot{
			HistoryDigest: b.Snaps[mr.QueryVersion].HistoryDigest,
			HyperDigest:   b.Snaps[mr.CurrentVersion].HyperDigest,
		}
		if c.AutoSnap && mr.CurrentVersion == mr.ActualVersion {
			snap.HyperDigest = b.Snaps[mr.QueryVersion].HyperDigest
		}
		var proof *balloon.MembershipProof
		ok := verdict(func() bool {
			proof = protocol.ToBalloonProof(mr, hashing.NewSha256Hasher)
			return proof.DigestVerify(rig.Dg(asked), snap)
		})
		truthful := mr.Exists && mr.ActualVersion <= mr.QueryVersion && mr.ActualVersion < uint64(w.N) && w.Ds[mr.ActualVersion] == asked
		if ok && !truthful {
			what := "a false claim"
			switch {
			case !mr.Exists:
				what = "a claim of absence"
				if _, present := m.Hyper[asked]; present {
					what = "a claim of absence for an event that is present"
				}
			case mr.ActualVersion > mr.QueryVersion:
				what = fmt.Sprintf("a claim whose insertion version %d is later than the queried version %d", mr.ActualVersion, mr.QueryVersion)
			case mr.ActualVersion >= uint64(w.N) || w.Ds[mr.ActualVersion] != asked:
				what = fmt.Sprintf("a claim that digest %x… was inserted at version %d, where another event is", asked[:4], mr.ActualVersion)
			}
			return fmt.Errorf("candidate %d (base ev=%d q=%d ops=%v ask=%d auto=%v): verifier accepts %s (Exists=%v Actual=%d Query=%d Current=%d)",
				ci, c.Ev, q, c.Ops, c.Ask, c.AutoSnap, what, mr.Exists, mr.ActualVersion, mr.QueryVersion, mr.CurrentVersion)
		}
		if ok {
			accepted++
		} else {
			rejected++
		}
		nt := false
		if !truthful && proof != nil {
			hy := verdict(func() bool { return proof.HyperProof.Verify(rig.Dg(asked), snap.HyperDigest) })
			hi := verdict(func() bool { return proof.HistoryProof.Verify(rig.Dg(asked), snap.HistoryDigest) })
			nt = hy || hi
			if hy {
				rec.Class("false-claim/hyper-part-holds", 1)
			}
			if hi {
				rec.Class("false-claim/history-part-holds", 1)
			}
		}
		rec.CaseHash(logHash^pbt.Hash(c)*1099511628211, nt)
		for _, op := range c.Ops {
			rec.Class("op:"+op.Kind, 1)
		}
		if len(c.Ops) == 0 {
			rec.Class("op:none", 1)
		}
	}
	rec.Count("accepted_true_claims", accepted)
	rec.Count("rejected", rejected)
	rec.Count("uncheckable_no_snapshot", uncheckable)
	rec.Count("logs", 1)
	if len(h.Cands) > 6 {
		hs := h
		hs.Cands = h.Cands[:6]
		rec.Sample(len(h.Digests), hs)
	} else {
		rec.Sample(len(h.Digests), h)
	}
	_ = bytes.Equal
	return nil
}
