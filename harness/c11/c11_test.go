// C11 — no client request can crash or wedge a server.
package c11

import (
	"bytes"
	"encoding/json"
	"fmt"
	"io"
	"net/http"
	"strings"
	"testing"
	"time"

	"github.com/bbva/qed/balloon"
	"github.com/bbva/qed/crypto/hashing"
	"github.com/bbva/qed/protocol"
	"pgregory.net/rapid"

	"verif/pbt"
	"verif/refmodel"
	"verif/rig"
	"verif/xp"
)

// R is one generated request.
type R struct {
	Mgmt   bool   `json:"mgmt"`
	Method string `json:"method"`
	Path   string `json:"path"`
	Query  string `json:"query,omitempty"`
	Body   string `json:"body"` // literal body (after construction)
	Shape  string `json:"shape"`
	Valid  bool   `json:"valid_add,omitempty"` // a valid add issued by the harness in between
}

type H struct {
	Reqs []R `json:"reqs"`
}

var apiPaths = []string{"/healthcheck", "/events", "/events/bulk", "/proofs/membership", "/proofs/digest-membership", "/proofs/incremental", "/info", "/info/shards", "/nope", "/"}
var mgmtPaths = []string{"/backup", "/backups", "/nope"}
var methods = []string{"GET", "POST", "POST", "POST", "PUT", "DELETE", "HEAD", "PATCH", "OPTIONS"}

const rule = "a complete server.Server (API, management, metrics, gossip agent, sender, Raft over RocksDB) runs in an executor child; rapid draws request sequences over real TCP: method x path (all API and management routes + unknown) x body grammar {well-formed bodies of every request type with boundary numerics (0, current, current+1, 2^63-1, 2^64-1) and degenerate collections ([], [\"\"], null, 2000 events), digests of length 0,1,31,32,33,64 and the key / digest of an event that is in the log, wrong JSON types, truncated / garbled JSON, empty body, null} x query parameters {missing, empty, non-numeric, 0, existing, huge, negative}; valid insertions are interleaved. Oracle: every request gets a well-formed HTTP response (a transport error / EOF is a dropped connection); the child is alive after each request and 300 ms later (FSM panics are asynchronous); the next valid insertion gets the next dense version and its membership proof verifies; at the end the server is stopped, restarted on the same directories (log replay) and again accepts an insertion with the next version. evaluations = requests. Non-trivial: the request reached the API behind the JSON decoder (2xx/412/5xx or a management route); distinct = FNV-64 of (method, path, query, body)."

func u64s(cur uint64) []string {
	return []string{"0", "1", fmt.Sprint(cur), fmt.Sprint(cur + 1), "9223372036854775807", "18446744073709551615", "18446744073709551616", "-1", "1.5", "\"7\"", "null"}
}

func b64(n int, seed byte) string {
	b := make([]byte, n)
	for i := range b {
		b[i] = seed + byte(i)
	}
	j, _ := json.Marshal(b)
	return string(j)
}

func drawBody(rt *rapid.T, path string) (string, string) {
	shape := rapid.SampledFrom([]string{"typed", "typed", "typed", "typed", "wrongtype", "truncated", "garbled", "empty", "null", "other-type"}).Draw(rt, "shape")
	ver := func() string {
		return rapid.SampledFrom(u64s(uint64(rapid.IntRange(0, 30).Draw(rt, "cur")))).Draw(rt, "ver")
	}
	dlen := func() int { return rapid.SampledFrom([]int{0, 1, 31, 32, 32, 32, 33, 64, 300}).Draw(rt, "dlen") }
	typed := func(p string) string {
		switch p {
		case "/events":
			return rapid.SampledFrom([]string{`{"Event":"ZXZlbnQ="}`, `{"Event":""}`, `{"Event":null}`, `{}`, `{"Event":` + b64(5000, 1) + `}`, `{"Event":"ZXZlbnQ=","Extra":1}`}).Draw(rt, "ev")
		case "/events/bulk":
			switch rapid.IntRange(0, 6).Draw(rt, "bulk") {
			case 0:
				return `{"Events":[]}`
			case 1:
				return `{"Events":null}`
			case 2:
				return `{}`
			case 3:
				return `{"Events":[""]}`
			case 4:
				var es []string
				for i := 0; i < 2000; i++ {
					es = append(es, fmt.Sprintf("%q", b64(3, byte(i))[1:5]))
				}
				return `{"Events":[` + strings.Join(es, ",") + `]}`
			case 5:
				return `{"Events":["YQ==","YQ==","YQ=="]}`
			default:
				return `{"Events":["YQ==","Yg==",""]}`
			}
		case "/proofs/membership":
			if rapid.Bool().Draw(rt, "nover") {
				return `{"Key":"ZXZlbnQ="}`
			}
			// "valid-1" is always in the log (inserted before the first generated request)
			return `{"Key":` + rapid.SampledFrom([]string{`"dmFsaWQtMQ=="`, `"dmFsaWQtMQ=="`, `"ZXZlbnQ="`, `""`, `null`}).Draw(rt, "key") + `,"Version":` + ver() + `}`
		case "/proofs/digest-membership":
			d := b64(dlen(), byte(rapid.IntRange(0, 255).Draw(rt, "dseed")))
			if rapid.IntRange(0, 2).Draw(rt, "existing") == 0 {
				d = `"fEIsCMy42x8rQFrgg9M7X9F5m4TE85DXmcbR1pymtlw="` // the digest of "valid-1", which is always in the log
			}
			if rapid.Bool().Draw(rt, "nover") {
				return `{"KeyDigest":` + d + `}`
			}
			return `{"KeyDigest":` + d + `,"Version":` + ver() + `}`
		case "/proofs/incremental":
			return `{"Start":` + ver() + `,"End":` + ver() + `}`
		}
		return `{"a":1}`
	}
	other := apiPaths[rapid.IntRange(1, 5).Draw(rt, "otherpath")]
	switch shape {
	case "typed":
		return typed(path), shape
	case "other-type":
		return typed(other), shape
	case "wrongtype":
		return rapid.SampledFrom([]string{`{"Event":123}`, `{"Events":"x"}`, `{"Events":[1,2]}`, `{"Key":5,"Version":"a"}`, `{"KeyDigest":[1,2,3]}`, `{"Start":"0","End":[]}`, `[1,2,3]`, `"str"`, `42`, `true`, `{"Events":{"a":1}}`}).Draw(rt, "wt"), shape
	case "truncated":
		t := typed(path)
		return t[:rapid.IntRange(0, len(t)).Draw(rt, "cut")], shape
	case "garbled":
		return string(rapid.SliceOfN(rapid.Byte(), 1, 60).Draw(rt, "garbage")), shape
	case "null":
		return "null", shape
	}
	return "", shape
}

func TestRequests(t *testing.T) {
	rec := pbt.NewRec("C11", "TestRequests", rule, "a membership query on an empty log reports CurrentVersion 2^64-1 (accepted-1 modulo 2^64): a well-formed response, not asserted against")
	pbt.Run(t, rec, func(rt *rapid.T) H {
		var h H
		for i, n := 0, rapid.IntRange(20, pbt.Scale(60, 150)).Draw(rt, "nreq"); i < n; i++ {
			if rapid.IntRange(0, 5).Draw(rt, "valid") == 0 {
				h.Reqs = append(h.Reqs, R{Valid: true})
				continue
			}
			var r R
			r.Mgmt = rapid.IntRange(0, 4).Draw(rt, "mgmt") == 0
			r.Method = rapid.SampledFrom(methods).Draw(rt, "method")
			if r.Mgmt {
				r.Method = rapid.SampledFrom([]string{"GET", "POST", "POST", "DELETE", "DELETE", "DELETE", "PUT", "HEAD"}).Draw(rt, "mmethod")
				r.Path = rapid.SampledFrom([]string{"/backup", "/backup", "/backups", "/nope"}).Draw(rt, "path")
				r.Query = rapid.SampledFrom([]string{"", "", "backupID=", "backupID=abc", "backupID=0", "backupID=1", "backupID=2", "backupID=99999", "backupID=4294967296", "backupID=-1", "backupID=1&backupID=2", "other=1"}).Draw(rt, "query")
				if rapid.IntRange(0, 3).Draw(rt, "mbody") == 0 {
					r.Body, r.Shape = drawBody(rt, "/events")
				}
			} else {
				r.Path = rapid.SampledFrom(apiPaths).Draw(rt, "path")
				r.Body, r.Shape = drawBody(rt, r.Path)
				if rapid.IntRange(0, 9).Draw(rt, "q") == 0 {
					r.Query = "v=1"
				}
			}
			h.Reqs = append(h.Reqs, r)
		}
		return h
	}, exec)
}

func unsettled(f string, a ...interface{}) error { return &pbt.Unsettled{Why: fmt.Sprintf(f, a...)} }

type srv struct {
	x                *rig.Exec
	dir              string
	httpA, mgmtA     string
	raftA, metA, gsA string
	cl               *http.Client
}

func (s *srv) start() error {
	var err error
	s.x, err = rig.StartExec("nodeexec")
	if err != nil {
		return unsettled("executor: %v", err)
	}
	r, err := s.x.Call(&xp.Req{Op: "srv-open", Name: "s", Node: &xp.NodeOpts{Dir: s.dir, ID: "s0", Addr: s.raftA, TimeoutMs: 200, Seeds: []string{s.httpA, s.mgmtA, s.metA, s.gsA}}}, 60*time.Second)
	if err != nil {
		return err
	}
	if r.Err != "" {
		return fmt.Errorf("%s", r.Err)
	}
	// wait until the API answers
	for i := 0; i < 200; i++ {
		req, _ := http.NewRequest("HEAD", "http://"+s.httpA+"/healthcheck", nil)
		if resp, err := s.cl.Do(req); err == nil {
			resp.Body.Close()
			return nil
		}
		time.Sleep(20 * time.Millisecond)
	}
	return unsettled("API port never answered")
}

func (s *srv) alive() error {
	if _, err := s.x.Call(&xp.Req{Op: "ping"}, 10*time.Second); err != nil {
		return err
	}
	return nil
}

func (s *srv) do(method, base, path, query, body string) (int, []byte, error) {
	u := "http://" + base + path
	if query != "" {
		u += "?" + query
	}
	var rd io.Reader
	if body != "" || method == "POST" || method == "PUT" {
		rd = strings.NewReader(body)
	}
	req, err := http.NewRequest(method, u, rd)
	if err != nil {
		return 0, nil, nil // not expressible as an HTTP request: skip
	}
	req.Header.Set("Content-Type", "application/json")
	resp, err := s.cl.Do(req)
	if err != nil {
		return 0, nil, err
	}
	defer resp.Body.Close()
	b, rerr := io.ReadAll(io.LimitReader(resp.Body, 64<<20))
	if rerr != nil {
		return resp.StatusCode, b, rerr
	}
	return resp.StatusCode, b, nil
}

func exec(h H, rec *pbt.Rec) error {
	s := &srv{dir: rig.WorkDir("c11"), httpA: rig.FreeAddr(), mgmtA: rig.FreeAddr(), raftA: rig.FreeAddr(), metA: rig.FreeAddr(), gsA: rig.FreeAddr()}
	s.cl = &http.Client{Timeout: 20 * time.Second, CheckRedirect: func(*http.Request, []*http.Request) error { return http.ErrUseLastResponse }}
	defer func() {
		if s.x != nil {
			s.x.Kill()
		}
	}()
	if err := s.start(); err != nil {
		if _, ok := err.(*pbt.Unsettled); ok {
			return err
		}
		return unsettled("server start: %v", err)
	}
	m := refmodel.NewLog()
	seq := 0
	// validAdd: the next valid insertion must get the next dense version and a verifying proof
	validAdd := func(when string) error {
		seq++
		ev := fmt.Sprintf("valid-%d", seq)
		body, _ := json.Marshal(&protocol.Event{Event: []byte(ev)})
		st, b, err := s.do("POST", s.httpA, "/events", "", string(body))
		if err != nil {
			return fmt.Errorf("%s: a valid insertion gets no HTTP response: %v", when, err)
		}
		if st != http.StatusCreated {
			return fmt.Errorf("%s: a valid insertion is answered %d %s", when, st, clip(b))
		}
		var snap protocol.Snapshot
		if err := json.Unmarshal(b, &snap); err != nil {
			return fmt.Errorf("%s: undecodable snapshot: %v", when, err)
		}
		if snap.Version != uint64(m.Len()) {
			return fmt.Errorf("%s: a valid insertion got version %d; %d events were accepted before it", when, snap.Version, m.Len())
		}
		m.AddBulk([]refmodel.D{refmodel.EventDigest([]byte(ev))})
		// membership proof of it verifies against the snapshot just returned
		q, _ := json.Marshal(&protocol.MembershipQuery{Key: []byte(ev), Version: &snap.Version})
		st, b, err = s.do("POST", s.httpA, "/proofs/membership", "", string(q))
		if err != nil || st != 200 {
			return fmt.Errorf("%s: membership query for a just-inserted event: status %d err %v %s", when, st, err, clip(b))
		}
		var mr *protocol.MembershipResult
		if err := json.Unmarshal(b, &mr); err != nil || mr == nil {
			return fmt.Errorf("%s: undecodable membership answer", when)
		}
		p := protocol.ToBalloonProof(mr, hashing.NewSha256Hasher)
		if !p.DigestVerify(snap.EventDigest, &balloon.Snapshot{HistoryDigest: snap.HistoryDigest, HyperDigest: snap.HyperDigest}) {
			return fmt.Errorf("%s: the server's answer for a just-inserted event does not verify against the snapshot it returned", when)
		}
		return nil
	}
	if err := validAdd("at start"); err != nil {
		return unsettled("%v", err)
	}
	for i, r := range h.Reqs {
		if r.Valid {
			if err := validAdd(fmt.Sprintf("request %d", i)); err != nil {
				return fmt.Errorf("after the preceding requests: %v", err)
			}
			continue
		}
		base := s.httpA
		if r.Mgmt {
			base = s.mgmtA
		}
		tag := fmt.Sprintf("request %d: %s %s%s body %q", i, r.Method, r.Path, qs(r.Query), clip([]byte(r.Body)))
		st, b, err := s.do(r.Method, base, r.Path, r.Query, r.Body)
		reached := false
		if err != nil {
			if aerr := s.alive(); aerr != nil {
				return fmt.Errorf("%s: the server process died: %v", tag, aerr)
			}
			return fmt.Errorf("%s: no well-formed HTTP response (dropped connection): %v", tag, err)
		}
		if st != 0 && (st < 100 || st > 599) {
			return fmt.Errorf("%s: status %d", tag, st)
		}
		if st >= 200 && st < 300 || st == 412 || st >= 500 || r.Mgmt {
			reached = true
		}
		// accepted insertions made by generated requests advance the model
		if st == http.StatusCreated && r.Method == "POST" && !r.Mgmt {
			switch r.Path {
			case "/events":
				var snap protocol.Snapshot
				if json.Unmarshal(b, &snap) == nil {
					if snap.Version != uint64(m.Len()) {
						return fmt.Errorf("%s: accepted with version %d; %d events were accepted before it", tag, snap.Version, m.Len())
					}
					m.AddBulk([]refmodel.D{toD(snap.EventDigest)})
				}
			case "/events/bulk":
				var snaps []*protocol.Snapshot
				if json.Unmarshal(b, &snaps) == nil {
					var ds []refmodel.D
					for k, sn := range snaps {
						if sn.Version != uint64(m.Len()+k) {
							return fmt.Errorf("%s: accepted, event %d got version %d; %d events were accepted before the request", tag, k, sn.Version, m.Len())
						}
						ds = append(ds, toD(sn.EventDigest))
					}
					if len(ds) > 0 {
						m.AddBulk(ds)
					}
				}
			}
		}
		rec.CaseHash(pbt.Hash([]string{r.Method, r.Path, r.Query, r.Body, fmt.Sprint(r.Mgmt)}), reached)
		rec.Class(fmt.Sprintf("%s:%d", r.Path, st/100*100), 1)
		if r.Shape != "" {
			rec.Class("shape:"+r.Shape, 1)
		}
		// asynchronous consequences (a replicated command that kills the FSM)
		if reached && r.Method == "POST" && (r.Path == "/events" || r.Path == "/events/bulk") {
			time.Sleep(300 * time.Millisecond)
		}
		if err := s.alive(); err != nil {
			return fmt.Errorf("%s: the server process died after answering %d: %v", tag, st, err)
		}
	}
	if err := validAdd("after all requests"); err != nil {
		return fmt.Errorf("after the generated requests: %v", err)
	}
	// stop, restart on the same directories (log replay), insert again
	r, err := s.x.Call(&xp.Req{Op: "srv-close", Name: "s"}, 60*time.Second)
	if err != nil {
		return fmt.Errorf("stopping the server after the generated requests killed the process: %v", err)
	}
	if r.Err != "" {
		return unsettled("Stop: %s", r.Err)
	}
	s.x.Exit()
	if err := s.start(); err != nil {
		if _, ok := err.(*pbt.Unsettled); ok {
			return err
		}
		return fmt.Errorf("the server cannot be restarted on its directories after the generated requests (log replay): %v", err)
	}
	time.Sleep(300 * time.Millisecond)
	if err := s.alive(); err != nil {
		return fmt.Errorf("the server died while replaying its log after a restart: %v", err)
	}
	if err := validAdd("after restart and log replay"); err != nil {
		return fmt.Errorf("after restart: %v", err)
	}
	rec.Count("servers", 1)
	hs := h
	if len(hs.Reqs) > 8 {
		hs.Reqs = hs.Reqs[:8]
	}
	for i := range hs.Reqs {
		if len(hs.Reqs[i].Body) > 200 {
			hs.Reqs = hs.Reqs[:i]
			break
		}
	}
	rec.Sample(len(h.Reqs), hs)
	return nil
}

func qs(q string) string {
	if q == "" {
		return ""
	}
	return "?" + q
}

func toD(b []byte) (d refmodel.D) { copy(d[:], b); return }

func clip(b []byte) string {
	b = bytes.TrimSpace(b)
	if len(b) > 160 {
		return string(b[:160]) + "…"
	}
	return string(b)
}
