package c11

import (
	"bytes"
	"fmt"
	"net/http"
	"net/http/httptest"
	"os"
	"sync"
	"testing"

	"github.com/bbva/qed/api/apihttp"

	"verif/pbt"
	"verif/refmodel"
	"verif/rig"
)

// Byte-level target: (route selector, body bytes) against the real API
// handlers over a balloon-backed ClientApi in-process. The first byte picks
// method and route; the rest is the body. Oracle: the handler returns
// (no panic) with a status 100..599 and the log still answers a valid
// membership query afterwards.

var (
	fzOnce sync.Once
	fzAPI  *rig.API
	fzMux  http.Handler
)

func fzSetup() {
	fzOnce.Do(func() {
		rig.Quiet()
		b, err := rig.NewBPlus()
		if err != nil {
			panic(err)
		}
		for i := 0; i < 5; i++ {
			b.Apply(false, []refmodel.D{refmodel.EventDigest([]byte{byte(i), 'f'})})
		}
		fzAPI = &rig.API{B: b}
		fzMux = apihttp.NewApiHttp(fzAPI)
	})
}

var fzRoutes = []string{"/events", "/events/bulk", "/proofs/membership", "/proofs/digest-membership", "/proofs/incremental", "/info", "/info/shards", "/healthcheck"}
var fzMethods = []string{"POST", "POST", "POST", "GET", "HEAD", "PUT", "DELETE"}

type FuzzH struct {
	Data []byte `json:"data"`
}

func execFuzz(data []byte) (reached bool, err error) {
	fzSetup()
	if len(data) == 0 {
		return false, nil
	}
	route := fzRoutes[int(data[0])%len(fzRoutes)]
	method := fzMethods[int(data[0]/8)%len(fzMethods)]
	body := data[1:]
	rr := httptest.NewRecorder()
	req := httptest.NewRequest(method, route, bytes.NewReader(body))
	var pv string
	p, v := pbt.Panics(func() { fzMux.ServeHTTP(rr, req) })
	if p {
		pv = v
		return true, fmt.Errorf("%s %s with body %q: the handler panicked (a dropped connection for the client): %s", method, route, clip(body), pv)
	}
	if rr.Code < 100 || rr.Code > 599 {
		return true, fmt.Errorf("%s %s: status %d", method, route, rr.Code)
	}
	// the log still serves
	q := httptest.NewRequest("POST", "/proofs/membership", bytes.NewReader([]byte(`{"Key":"AGY="}`)))
	r2 := httptest.NewRecorder()
	if p, v := pbt.Panics(func() { fzMux.ServeHTTP(r2, q) }); p || r2.Code != 200 {
		return true, fmt.Errorf("after %s %s with body %q a valid membership query fails: status %d panic %v %s", method, route, clip(body), r2.Code, p, v)
	}
	return rr.Code < 400 || rr.Code == 412, nil
}

func fzSeeds() [][]byte {
	var out [][]byte
	bodies := []string{`{"Event":"ZXZlbnQ="}`, `{"Events":["YQ==","Yg=="]}`, `{"Events":[]}`, `{"Events":null}`, `{"Events":["YQ==","YQ==","YQ=="]}`,
		`{"Key":"AGY=","Version":2}`, `{"KeyDigest":"` + "AAECAwQFBgcICQoLDA0ODxAREhMUFRYXGBkaGxwdHh8=" + `","Version":3}`, `{"KeyDigest":"AAE="}`,
		`{"Start":0,"End":4}`, `{"Start":3,"End":1}`, `{"Start":18446744073709551615,"End":0}`, `null`, `{}`, `[`, ``}
	for r := 0; r < len(fzRoutes); r++ {
		for _, b := range bodies {
			out = append(out, append([]byte{byte(r)}, []byte(b)...))
		}
	}
	return out
}

func FuzzAPIHandlers(f *testing.F) {
	for _, s := range fzSeeds() {
		f.Add(s)
	}
	f.Fuzz(func(t *testing.T, data []byte) {
		if _, err := execFuzz(data); err != nil {
			p := pbt.SaveReplay("C11", "TestReplayFuzz", FuzzH{data}, err)
			pbt.Violation("C11", p, err.Error())
			t.Fatal(err)
		}
	})
}

// TestReplayFuzz re-executes a saved byte-level failure.
func TestReplayFuzz(t *testing.T) {
	var h FuzzH
	ok, err := pbt.LoadReplay("TestReplayFuzz", &h)
	if err != nil {
		t.Fatal(err)
	}
	if !ok {
		t.Skip("no byte-level replay requested")
	}
	if _, err := execFuzz(h.Data); err != nil {
		pbt.Violation("C11", os.Getenv("VERIF_REPLAY"), err.Error())
		t.Fatal(err)
	}
}

// TestFuzzCorpus is the deterministic tier of the byte-level target.
func TestFuzzCorpus(t *testing.T) {
	rec := pbt.NewRec("C11", "TestFuzzCorpus", "deterministic tier of the byte-level target FuzzAPIHandlers (first byte selects method and route, the rest is the body, sent to the real api/apihttp handlers in-process over a balloon-backed API): the seed corpus (every route x well-formed and degenerate bodies) is executed under the oracle 'handler returns without panicking, status 100..599, the log still answers a valid query'. The coverage-guided campaign runs in the thorough tier. Non-trivial: the request passed decoding (2xx/412). distinct = FNV-64 of the bytes.")
	defer rec.Flush()
	for _, s := range fzSeeds() {
		reached, err := execFuzz(s)
		rec.CaseHash(pbt.Hash(s), reached)
		if err != nil {
			p := pbt.SaveReplay("C11", "TestReplayFuzz", FuzzH{s}, err)
			pbt.Violation("C11", p, err.Error())
			t.Fatal(err)
		}
	}
	rec.Sample(1, map[string]interface{}{"inputs": len(fzSeeds()), "first": string(fzSeeds()[0][1:])})
}
