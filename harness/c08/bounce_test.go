package c08

import (
	"fmt"
	"sort"
	"testing"
	"time"

	"pgregory.net/rapid"

	"verif/pbt"
	"verif/rig"
	"verif/xp"
)

// BH is a follower stopped again while it is still catching up.
type BH struct {
	Before  []int `json:"before"`  // insertions (bulk sizes) with all nodes up
	Backlog []int `json:"backlog"` // insertions (bulk sizes) made while the follower is down
	Delays  []int `json:"delays"`  // per bounce: ms between the follower's restart and its next clean stop
	After   []int `json:"after"`   // insertions after the last restart
	Down    int   `json:"down"`
}

const ruleBounce = "a 3-node cluster over RocksDB (one executor child): insertions, a follower is stopped (Close(true)), a backlog of 2-12 insertions is made on the others (bulk sizes drawn from {1..5, 200, 1001, 2001}: applying it takes the follower a while), the follower is restarted and stopped again after a drawn 0-400 ms — i.e. in the middle of applying what it missed — 1-3 times, then restarted for good, more insertions. Oracle: every Close returns, without error, within 60 s (shutdown always completes) and the process survives; after quiescence (<=60 s) the bounced follower is indistinguishable from the replicas that never stopped (C06's oracle: same applied state, byte-identical tables, proofs verifying against the snapshots acknowledged to the client). Non-trivial: at least one stop hit the follower while its applied index was behind the leader's. distinct = FNV-64 of the history."

func TestFollowerBounce(t *testing.T) {
	rec := pbt.NewRec("C08", "TestFollowerBounce", ruleBounce, "no network faults; replicas share a process")
	pbt.Run(t, rec, func(rt *rapid.T) BH {
		var h BH
		size := func(label string) int {
			return rapid.SampledFrom([]int{1, 1, 2, 3, 5, 200, 200, 1001, 2001}).Draw(rt, label)
		}
		for i, n := 0, rapid.IntRange(0, 3).Draw(rt, "nbefore"); i < n; i++ {
			h.Before = append(h.Before, rapid.IntRange(1, 5).Draw(rt, "before"))
		}
		for i, n := 0, rapid.IntRange(2, 12).Draw(rt, "nbacklog"); i < n; i++ {
			h.Backlog = append(h.Backlog, size("backlog"))
		}
		for i, n := 0, rapid.IntRange(1, 3).Draw(rt, "nbounce"); i < n; i++ {
			h.Delays = append(h.Delays, rapid.SampledFrom([]int{0, 0, 5, 20, 50, 100, 200, 400}).Draw(rt, "delay"))
		}
		for i, n := 0, rapid.IntRange(1, 3).Draw(rt, "nafter"); i < n; i++ {
			h.After = append(h.After, rapid.IntRange(1, 5).Draw(rt, "after"))
		}
		h.Down = rapid.IntRange(0, 1).Draw(rt, "down")
		return h
	}, execBounce)
}

func execBounce(h BH, rec *pbt.Rec) error {
	unsettled := func(f string, a ...interface{}) error { return &pbt.Unsettled{Why: fmt.Sprintf(f, a...)} }
	x, err := rig.StartExec("nodeexec")
	if err != nil {
		return unsettled("executor: %v", err)
	}
	c, err := rig.NewCluster(x, 3, xp.NodeOpts{TimeoutMs: 300, SnapshotThreshold: 1 << 30, TrailingLogs: 1 << 20})
	if err != nil {
		x.Kill()
		return unsettled("cluster boot: %v", err)
	}
	defer func() { c.X.Kill() }()
	dead := func(err error) bool { _, ok := err.(*rig.Death); return ok }
	seq := 0
	add := func(sizes []int, phase string) error {
		for _, k := range sizes {
			var es []string
			for j := 0; j < k; j++ {
				es = append(es, fmt.Sprintf("b-%d", seq))
				seq++
			}
			if _, err := c.Add(es, false); err != nil {
				if dead(err) {
					return fmt.Errorf("%s: the process holding the replicas died: %v", phase, err)
				}
				return unsettled("%s add: %v", phase, err)
			}
		}
		return nil
	}
	if err := add(h.Before, "before"); err != nil {
		return err
	}
	if _, err := c.Quiesce(60 * time.Second); err != nil {
		return unsettled("initial quiescence: %v", err)
	}
	l, err := c.Leader("", 20*time.Second)
	if err != nil {
		return unsettled("%v", err)
	}
	var fs []string
	for nm := range c.Live {
		if nm != l.Name {
			fs = append(fs, nm)
		}
	}
	sort.Strings(fs)
	xname := fs[h.Down%len(fs)]
	if err := c.Stop(xname); err != nil {
		return unsettled("first stop: %v", err)
	}
	if err := add(h.Backlog, "while the follower is down"); err != nil {
		return err
	}
	behind := false
	for bi, d := range h.Delays {
		if err := c.Restart(xname); err != nil {
			if dead(err) {
				return fmt.Errorf("bounce %d: restarting the follower killed the process: %v", bi, err)
			}
			return unsettled("restart: %v", err)
		}
		time.Sleep(time.Duration(d) * time.Millisecond)
		n := c.Live[xname]
		if st, err := n.State(); err == nil {
			if lst, err2 := l.State(); err2 == nil && st.Index < lst.Index {
				behind = true
				rec.Class("stopped-while-behind", 1)
			}
		}
		r, err := n.CloseBounded(true, 60)
		if err != nil {
			if dead(err) {
				return fmt.Errorf("bounce %d: stopping the follower %d ms after its restart (it missed %d insertions) killed the process: %v", bi, d, len(h.Backlog), err)
			}
			return unsettled("close: %v", err)
		}
		if r.ErrKind == "hang" {
			return fmt.Errorf("bounce %d: the clean stop of the follower, %d ms after it was restarted with %d insertions to catch up on, did not complete within 60 s", bi, d, len(h.Backlog))
		}
		if r.Err != "" {
			return fmt.Errorf("bounce %d: Close of the catching-up follower returned an error: %s", bi, r.Err)
		}
		delete(c.Live, xname)
	}
	if err := c.Restart(xname); err != nil {
		if dead(err) {
			return fmt.Errorf("the final restart of the follower killed the process: %v", err)
		}
		return unsettled("final restart: %v", err)
	}
	if err := add(h.After, "after the bounces"); err != nil {
		return err
	}
	if _, err := c.Quiesce(60 * time.Second); err != nil {
		if dead(err) {
			return fmt.Errorf("after the bounces: the process holding the replicas died: %v", err)
		}
		return fmt.Errorf("after %d stop/restart cycles of follower %s during catch-up: %v", len(h.Delays), xname, err)
	}
	k, err := c.CheckReplicas(8)
	rec.Count("proofs_verified", int64(k))
	if err != nil {
		return fmt.Errorf("after %d stop/restart cycles of follower %s during catch-up: %v", len(h.Delays), xname, err)
	}
	rec.Case(h, behind)
	rec.Sample(len(h.Backlog), h)
	return nil
}
