package c08

import (
	"encoding/json"
	"fmt"
	"io"
	"net/http"
	"strings"
	"sync"
	"sync/atomic"
	"testing"
	"time"

	"github.com/bbva/qed/balloon"
	"github.com/bbva/qed/crypto/hashing"
	"github.com/bbva/qed/protocol"
	"pgregory.net/rapid"

	"verif/pbt"
	"verif/refmodel"
	"verif/rig"
	"verif/xp"
)

// SH is a life of a complete server.Server: insertions, then a stop while
// drawn bystanders (read-only clients of its public ports) keep calling, a
// restart on the same directories, more insertions; repeated Rounds times.
type SH struct {
	Sizes      [][]int  `json:"sizes"`      // per round: sizes of the insertion requests made before the stop (1 = POST /events)
	Bystanders []string `json:"bystanders"` // metrics query incremental mgmt info
	PerKind    int      `json:"per_kind"`   // goroutines per bystander kind
	LeadMs     int      `json:"lead_ms"`    // bystanders start this long before Stop
	NewProcess []bool   `json:"new_process"`
}

const ruleServer = "a complete server.Server (API, management, metrics, gossip agent, sender, Raft) in an executor child; 1-3 rounds of: insertions over HTTP (single and bulk), then Stop while drawn read-only bystanders (Prometheus scrapes of /metrics, membership and incremental queries, management listing, /info/shards; 1-8 goroutines each) keep calling, restart on the same directories in the same or a new process, more insertions. Oracle: Stop returns within 30 s and the process survives it (and exits cleanly when asked), every snapshot after a restart equals the reference trees', proofs for pre-stop events verify against pre-stop snapshots. Non-trivial: >= 1 event before the first stop and >= 1 bystander kind calling during it; distinct = FNV-64 of the history."

func TestServerStop(t *testing.T) {
	rec := pbt.NewRec("C08", "TestServerStop", ruleServer,
		"bystanders are read-only: what they are answered while the server goes away is not judged, only that the server's shutdown completes and nothing is lost")
	pbt.Run(t, rec, func(rt *rapid.T) SH {
		var h SH
		rounds := rapid.IntRange(1, 3).Draw(rt, "rounds")
		for r := 0; r < rounds; r++ {
			var sz []int
			for i, n := 0, rapid.IntRange(0, 4).Draw(rt, "reqs"); i < n; i++ {
				sz = append(sz, rapid.SampledFrom([]int{1, 1, 1, 2, 3, 7, 40}).Draw(rt, "size"))
			}
			if r == 0 && len(sz) == 0 && rapid.IntRange(0, 3).Draw(rt, "empty-first") != 0 {
				sz = []int{1}
			}
			h.Sizes = append(h.Sizes, sz)
			h.NewProcess = append(h.NewProcess, rapid.Bool().Draw(rt, "new-process"))
		}
		kinds := []string{"metrics", "query", "incremental", "mgmt", "info"}
		for _, k := range kinds {
			if rapid.IntRange(0, 2).Draw(rt, k) != 0 {
				h.Bystanders = append(h.Bystanders, k)
			}
		}
		h.PerKind = rapid.SampledFrom([]int{1, 2, 8}).Draw(rt, "per-kind")
		h.LeadMs = rapid.SampledFrom([]int{0, 5, 50}).Draw(rt, "lead")
		return h
	}, execServer)
}

func unsettled(f string, a ...interface{}) error { return &pbt.Unsettled{Why: fmt.Sprintf(f, a...)} }

type srv struct {
	x                              *rig.Exec
	dir                            string
	httpA, mgmtA, raftA, metA, gsA string
	cl                             *http.Client
}

func (s *srv) start() error {
	if s.x == nil {
		var err error
		s.x, err = rig.StartExec("nodeexec")
		if err != nil {
			return unsettled("executor: %v", err)
		}
	}
	r, err := s.x.Call(&xp.Req{Op: "srv-open", Name: "s", Node: &xp.NodeOpts{Dir: s.dir, ID: "s0", Addr: s.raftA, TimeoutMs: 200, Seeds: []string{s.httpA, s.mgmtA, s.metA, s.gsA}}}, 90*time.Second)
	if err != nil {
		return fmt.Errorf("starting the server killed the process: %v", err)
	}
	if r.Err != "" {
		if strings.Contains(r.Err, "address already in use") {
			return unsettled("%s", r.Err)
		}
		return fmt.Errorf("%s", r.Err)
	}
	for i := 0; i < 300; i++ {
		req, _ := http.NewRequest("HEAD", "http://"+s.httpA+"/healthcheck", nil)
		if resp, err := s.cl.Do(req); err == nil {
			resp.Body.Close()
			return nil
		}
		time.Sleep(20 * time.Millisecond)
	}
	return unsettled("API port never answered")
}

func (s *srv) post(base, path string, body []byte) (int, []byte, error) {
	req, err := http.NewRequest("POST", "http://"+base+path, strings.NewReader(string(body)))
	if err != nil {
		return 0, nil, err
	}
	req.Header.Set("Content-Type", "application/json")
	resp, err := s.cl.Do(req)
	if err != nil {
		return 0, nil, err
	}
	defer resp.Body.Close()
	b, _ := io.ReadAll(io.LimitReader(resp.Body, 64<<20))
	return resp.StatusCode, b, nil
}

func execServer(h SH, rec *pbt.Rec) error {
	s := &srv{dir: rig.WorkDir("c08srv"), httpA: rig.FreeAddr(), mgmtA: rig.FreeAddr(), raftA: rig.FreeAddr(), metA: rig.FreeAddr(), gsA: rig.FreeAddr()}
	s.cl = &http.Client{Timeout: 30 * time.Second}
	defer func() {
		if s.x != nil {
			s.x.Kill()
		}
	}()
	if err := s.start(); err != nil {
		if _, ok := err.(*pbt.Unsettled); ok {
			return err
		}
		return unsettled("first server start: %v", err)
	}
	m := refmodel.NewLog()
	seq := 0
	// insert: one request of k events; the acknowledgement must carry the next dense
	// versions and the reference digests
	insert := func(k int, when string) error {
		var evs [][]byte
		var ds []refmodel.D
		for i := 0; i < k; i++ {
			seq++
			e := []byte(fmt.Sprintf("srv-event-%d", seq))
			evs = append(evs, e)
			ds = append(ds, refmodel.EventDigest(e))
		}
		// the leader election of a restarted single node takes a moment: retry refusals
		var st int
		var b []byte
		var err error
		for try := 0; try < 150; try++ {
			if k == 1 {
				body, _ := json.Marshal(&protocol.Event{Event: evs[0]})
				st, b, err = s.post(s.httpA, "/events", body)
			} else {
				body, _ := json.Marshal(&protocol.EventsBulk{Events: evs})
				st, b, err = s.post(s.httpA, "/events/bulk", body)
			}
			if err != nil {
				return fmt.Errorf("%s: an insertion gets no HTTP response: %v", when, err)
			}
			if st == http.StatusCreated {
				break
			}
			time.Sleep(40 * time.Millisecond)
		}
		if st != http.StatusCreated {
			return fmt.Errorf("%s: insertions are still refused 6 s after the server started: %d %s", when, st, b)
		}
		var snaps []*protocol.Snapshot
		if k == 1 {
			var sn protocol.Snapshot
			if err := json.Unmarshal(b, &sn); err != nil {
				return fmt.Errorf("%s: undecodable snapshot: %v", when, err)
			}
			snaps = []*protocol.Snapshot{&sn}
		} else if err := json.Unmarshal(b, &snaps); err != nil {
			return fmt.Errorf("%s: undecodable snapshots: %v", when, err)
		}
		want := m.AddBulk(ds)
		if len(snaps) != len(want) {
			return fmt.Errorf("%s: %d snapshots for %d events", when, len(snaps), len(want))
		}
		for i, sn := range snaps {
			got := &balloon.Snapshot{Version: sn.Version, EventDigest: sn.EventDigest, HistoryDigest: sn.HistoryDigest, HyperDigest: sn.HyperDigest}
			if err := rig.CheckSnap(got, want[i], true); err != nil {
				return fmt.Errorf("%s: %v", when, err)
			}
		}
		rec.Count("snapshots_compared", int64(len(snaps)))
		return nil
	}
	// proofs: membership of sampled events at their own and the current version, judged
	// against the reference digests (= the snapshots issued, by the check above)
	proofs := func(when string) error {
		n := m.Len()
		if n == 0 {
			return nil
		}
		cur := uint64(n - 1)
		step := 1
		if n > 8 {
			step = n / 8
		}
		for v := 0; v < n; v += step {
			e := m.Events[v]
			for _, q := range []uint64{uint64(v), cur} {
				qq := q
				body, _ := json.Marshal(&protocol.MembershipDigest{KeyDigest: rig.Dg(e), Version: &qq})
				st, b, err := s.post(s.httpA, "/proofs/digest-membership", body)
				if err != nil || st != 200 {
					return fmt.Errorf("%s: membership(v%d, q=%d): status %d err %v %s", when, v, q, st, err, b)
				}
				if err := rig.VerifyMember(xp.Answer{Result: b}, m, e, q, cur); err != nil {
					return fmt.Errorf("%s: %v", when, err)
				}
				rec.Count("proofs_verified", 1)
			}
		}
		return nil
	}
	before := 0
	for r := range h.Sizes {
		for i, k := range h.Sizes[r] {
			if err := insert(k, fmt.Sprintf("round %d request %d", r, i)); err != nil {
				if r == 0 {
					return unsettled("%v", err)
				}
				return fmt.Errorf("after %d stop/restart cycle(s): %v", r, err)
			}
		}
		if r == 0 {
			before = m.Len()
		}
		if err := proofs(fmt.Sprintf("round %d, before the stop", r)); err != nil {
			if r == 0 {
				return unsettled("%v", err)
			}
			return fmt.Errorf("after %d stop/restart cycle(s): %v", r, err)
		}
		// bystanders
		var stop int32
		var wg sync.WaitGroup
		var calls int64
		bcl := &http.Client{Timeout: 5 * time.Second}
		get := func(u string) {
			if resp, err := bcl.Get(u); err == nil {
				io.Copy(io.Discard, resp.Body)
				resp.Body.Close()
			}
			atomic.AddInt64(&calls, 1)
		}
		postq := func(u string, body []byte) {
			if resp, err := bcl.Post(u, "application/json", strings.NewReader(string(body))); err == nil {
				io.Copy(io.Discard, resp.Body)
				resp.Body.Close()
			}
			atomic.AddInt64(&calls, 1)
		}
		for _, kind := range h.Bystanders {
			for g := 0; g < h.PerKind; g++ {
				wg.Add(1)
				go func(kind string, g int) {
					defer wg.Done()
					for i := 0; atomic.LoadInt32(&stop) == 0; i++ {
						switch kind {
						case "metrics":
							get("http://" + s.metA + "/metrics")
						case "mgmt":
							get("http://" + s.mgmtA + "/backups")
						case "info":
							get("http://" + s.httpA + "/info/shards")
						case "query":
							if m.Len() == 0 {
								get("http://" + s.httpA + "/healthcheck")
								continue
							}
							v := uint64((i + g) % m.Len())
							cur := uint64(m.Len() - 1)
							body, _ := json.Marshal(&protocol.MembershipDigest{KeyDigest: rig.Dg(m.Events[v]), Version: &cur})
							postq("http://"+s.httpA+"/proofs/digest-membership", body)
						case "incremental":
							if m.Len() == 0 {
								get("http://" + s.httpA + "/healthcheck")
								continue
							}
							body, _ := json.Marshal(&protocol.IncrementalRequest{Start: uint64((i + g) % m.Len()), End: uint64(m.Len() - 1)})
							postq("http://"+s.httpA+"/proofs/incremental", body)
						}
					}
				}(kind, g)
			}
		}
		time.Sleep(time.Duration(h.LeadMs) * time.Millisecond)
		resp, err := s.x.Call(&xp.Req{Op: "srv-close", Name: "s"}, 90*time.Second)
		time.Sleep(30 * time.Millisecond)
		atomic.StoreInt32(&stop, 1)
		wg.Wait()
		rec.Count("bystander_calls", atomic.LoadInt64(&calls))
		what := fmt.Sprintf("stopping the server (round %d, %d events, bystanders %v x%d)", r, m.Len(), h.Bystanders, h.PerKind)
		if err != nil {
			return fmt.Errorf("%s killed the process: %v", what, err)
		}
		if resp.ErrKind == "hang" {
			return fmt.Errorf("%s: %s", what, resp.Err)
		}
		if resp.Err != "" {
			return fmt.Errorf("%s: Stop returned an error: %s", what, resp.Err)
		}
		if _, err := s.x.Call(&xp.Req{Op: "ping"}, 10*time.Second); err != nil {
			return fmt.Errorf("%s: the process died right after Stop returned: %v", what, err)
		}
		rec.Count("stops", 1)
		if h.NewProcess[r] {
			if d := s.x.Exit(); d.ExitCode != 0 || d.Signal != "" {
				return fmt.Errorf("%s: the process did not end cleanly after Stop: %v", what, d)
			}
			s.x = nil
		}
		if err := s.start(); err != nil {
			if _, ok := err.(*pbt.Unsettled); ok {
				return err
			}
			return fmt.Errorf("the server cannot be restarted on its directories after a clean stop: %v", err)
		}
		if err := insert(1, fmt.Sprintf("first insertion after restart %d", r+1)); err != nil {
			return fmt.Errorf("after a clean stop and restart: %v", err)
		}
		if err := proofs(fmt.Sprintf("after restart %d", r+1)); err != nil {
			return fmt.Errorf("after a clean stop and restart: %v", err)
		}
	}
	resp, err := s.x.Call(&xp.Req{Op: "srv-close", Name: "s"}, 90*time.Second)
	if err != nil {
		return fmt.Errorf("the final stop killed the process: %v", err)
	}
	if resp.Err != "" {
		return fmt.Errorf("the final stop: %s", resp.Err)
	}
	if d := s.x.Exit(); d.ExitCode != 0 || d.Signal != "" {
		return fmt.Errorf("the process did not end cleanly after the final stop: %v", d)
	}
	s.x = nil
	cls := append([]string{}, h.Bystanders...)
	if before == 0 {
		cls = append(cls, "stop-after-zero-events")
	}
	rec.Case(h, before > 0 && len(h.Bystanders) > 0, cls...)
	rec.Sample(m.Len(), h)
	_ = hashing.NewSha256Hasher
	return nil
}
