// C08 — stopping and restarting a node is invisible and never crashes.
package c08

import (
	"fmt"
	"testing"

	"pgregory.net/rapid"

	"verif/pbt"
	"verif/rig"
)

type H struct {
	rig.NodeHistory
	Mode string `json:"mode"` // every | one | some
}

const ruleRocks = "rapid-drawn workloads (1-10 insertion calls, single or bulk up to 6, distinct events) on a single-node RaftNode over RocksDB in executor children, with a clean stop (RaftNode.Close(true), process exit) and restart on the same directories at a drawn set of stop points: after every call incl. before the first ('every'), at one drawn point ('one'), or a drawn subset ('some'); a stop may be preceded by a forced raft snapshot (log compaction), and 1 case in 8 contains a bulk of 1001-2001 events (above the 1000-entry page of the cache warm-up). Oracle: Close returns without error, the process exits 0 with no signal (an abort in rocksdb_close is the leak the property forbids); every snapshot acknowledged after a restart equals the reference model's for the uninterrupted sequence; sampled membership / consistency proofs for pre-stop events verify against pre-stop snapshots. Non-trivial: a restart with state before it and >=1 insertion and >=1 proof after it. distinct = FNV-64 of the history."

func TestRocksRestart(t *testing.T) {
	rec := pbt.NewRec("C08", "TestRocksRestart", ruleRocks, "clean stop = RaftNode.Close(true) then process exit; SIGKILL is C07's")
	pbt.Run(t, rec, func(rt *rapid.T) H {
		m := rapid.IntRange(1, pbt.Scale(7, 10)).Draw(rt, "calls")
		adds := rig.DrawAdds(rt, m, 6, "e")
		mode := rapid.SampledFrom([]string{"every", "one", "one", "some"}).Draw(rt, "mode")
		var pts map[int]bool
		switch mode {
		case "every":
			pts = map[int]bool{}
			for i := 0; i <= m; i++ {
				pts[i] = true
			}
		case "one":
			pts = map[int]bool{rapid.IntRange(0, m).Draw(rt, "at"): true}
		default:
			pts = map[int]bool{}
			for i := 0; i <= m; i++ {
				if rapid.Bool().Draw(rt, "stop") {
					pts[i] = true
				}
			}
		}
		h := H{Mode: mode}
		if rapid.IntRange(0, 7).Draw(rt, "big") == 0 && m >= 1 {
			// one call is a bulk above the 1000-entry page of the cache warm-up
			var es []string
			for j, k := 0, rapid.SampledFrom([]int{1001, 1100, 1500, 2001}).Draw(rt, "big-n"); j < k; j++ {
				es = append(es, fmt.Sprintf("big-%d", j))
			}
			adds[rapid.IntRange(0, m-1).Draw(rt, "big-at")] = rig.Step{Op: "add", Events: es}
			h.Mode += "+big"
		}
		for i := 0; i <= m; i++ {
			if pts[i] {
				if i > 0 && rapid.IntRange(0, 2).Draw(rt, "snap") == 0 {
					// a raft snapshot (and log compaction) right before the stop
					h.Steps = append(h.Steps, rig.Step{Op: "snapshot"})
				}
				h.Steps = append(h.Steps, rig.Step{Op: "restart"})
			}
			if i < m {
				h.Steps = append(h.Steps, adds[i])
			}
		}
		return h
	}, execRocks)
}

func execRocks(h H, rec *pbt.Rec) error {
	st, _, err := rig.RunNodeHistory(h.NodeHistory, rig.Oracle{RefDigests: true, Proofs: true, CleanExit: true, Limit: 10}, "nodeexec")
	nt := false
	seenAdd, seenRestart := false, false
	for _, s := range h.Steps {
		if s.Op == "add" {
			if seenRestart && seenAdd {
				nt = true
			}
			seenAdd = true
		}
		if s.Op == "restart" && seenAdd {
			seenRestart = true
		}
	}
	cls := []string{"mode:" + h.Mode}
	if len(h.Steps) > 0 && h.Steps[0].Op == "restart" {
		cls = append(cls, "stop-after-zero-events")
	}
	rec.Case(h, nt, cls...)
	if st != nil {
		rec.Count("restarts", int64(st.Restarts))
		rec.Count("events", int64(st.Events))
		rec.Count("proofs_verified", int64(st.Queries))
	}
	rec.Sample(len(h.Steps), h)
	return err
}

// ------------------------------------------------------------------ bplus

const ruleBPlus = "bplus back-end: rapid-drawn log histories (n<=40) with a fresh Balloon built on the same store object before every call ('reopen' of the in-memory store is re-construction: its Close() clears it by design); every later snapshot must equal the reference model's and every (event, version) proof of pre-stop events must verify against the snapshots issued before the stop. Non-trivial: >=1 stop with state before it and an insertion after it. distinct = FNV-64 of the history."

func TestBPlusRestart(t *testing.T) {
	rec := pbt.NewRec("C08", "TestBPlusRestart", ruleBPlus)
	pbt.Run(t, rec, func(rt *rapid.T) rig.LogHistory {
		h := rig.DrawLog(rt, 40, true, false)
		switch rapid.IntRange(0, 2).Draw(rt, "mode") {
		case 0:
			for i := range h.Calls {
				h.Restarts = append(h.Restarts, i)
			}
		case 1:
			h.Restarts = []int{rapid.IntRange(0, len(h.Calls)-1).Draw(rt, "at")}
		default:
			for i := range h.Calls {
				if rapid.Bool().Draw(rt, "stop") {
					h.Restarts = append(h.Restarts, i)
				}
			}
		}
		return h
	}, execBPlus)
}

func execBPlus(h rig.LogHistory, rec *pbt.Rec) error {
	nt := false
	for _, r := range h.Restarts {
		if r > 0 {
			nt = true
		}
	}
	rec.Case(h, nt, h.Classes()...)
	rec.Sample(len(h.Digests), h)
	b, m, err := h.Build(true)
	if err != nil {
		return err
	}
	// proofs for every event at every version, served by the last incarnation
	ds := h.Ds()
	n := len(ds)
	for vi := 0; vi < n; vi++ {
		for q := vi; q < n; q += 1 + n/8 {
			if err := b.CheckMembership(m, ds[vi], uint64(q), false); err != nil {
				return fmt.Errorf("after the restarts: %v", err)
			}
		}
	}
	for i := 0; i < n; i += 1 + n/6 {
		if err := b.CheckConsistency(uint64(i), uint64(n-1), false); err != nil {
			return fmt.Errorf("after the restarts: %v", err)
		}
	}
	return nil
}
