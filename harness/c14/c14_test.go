// C14 — each store back-end behaves as an atomic, ordered, per-table map.
package c14

import (
	"bytes"
	"fmt"
	"sort"
	"testing"
	"time"

	"github.com/bbva/qed/storage"
	"github.com/bbva/qed/storage/bplus"
	"pgregory.net/rapid"

	"verif/pbt"
	"verif/rig"
	"verif/xp"
)

type H struct {
	Backend string       `json:"backend"` // bplus | rocks
	Ops     []xp.StoreOp `json:"ops"`
}

const rule = "rapid state-machine sequences of Mutate (1-20 mutations over all five tables, overwrites, same key twice in one batch), Get, GetRange(start,end) (incl. start>end, absent / empty bounds), GetAll with read buffers of 1,2,7,100,1000, GetLast and (RocksDB) close+reopen, with keys of length 0-40 biased to 0x00/0xff runs, QED-shaped 10- and 34-byte keys and keys above 0xff*10; every observation is compared with one sorted map per table. BPlusTreeStore runs in-process; RocksDBStore runs a whole sequence in an executor child (an abort at close is an observation). Non-trivial: >=2 tables populated and >=1 GetAll/GetLast/GetRange on a table while another table holds entries. distinct = FNV-64 of the sequence."

var bufs = []int{1, 2, 7, 100, 1000}

func keyGen() *rapid.Generator[[]byte] {
	edge := rapid.SampledFrom([]byte{0x00, 0x00, 0xff, 0xff, 0x01, 0x7f, 0x80, 0xfe})
	return rapid.OneOf(
		rapid.SliceOfN(edge, 0, 12),
		rapid.SliceOfN(rapid.Byte(), 0, 40),
		rapid.SliceOfN(rapid.SampledFrom([]byte{'a', 'b'}), 1, 3), // collisions / overwrites
		rapid.Custom(func(t *rapid.T) []byte { // history-shaped: be64 index + be16 height
			k := make([]byte, 10)
			v := rapid.Uint64Range(0, 40).Draw(t, "hidx")
			for i := 0; i < 8; i++ {
				k[i] = byte(v >> uint(56-8*i))
			}
			k[9] = byte(rapid.IntRange(0, 6).Draw(t, "hh"))
			return k
		}),
		rapid.Custom(func(t *rapid.T) []byte { // hyper-shaped: be16 height + 32-byte index
			k := make([]byte, 34)
			k[1] = byte(rapid.IntRange(200, 255).Draw(t, "yh"))
			k[2] = rapid.SampledFrom([]byte{0, 0x80, 0xff}).Draw(t, "y0")
			return k
		}),
		rapid.Custom(func(t *rapid.T) []byte { // above the 0xff*10 seek key of RocksDBStore.GetLast
			k := bytes.Repeat([]byte{0xff}, rapid.IntRange(10, 14).Draw(t, "fflen"))
			if rapid.Bool().Draw(t, "tail") {
				k = append(k, rapid.Byte().Draw(t, "b"))
			}
			return k
		}),
	)
}

func drawOps(rt *rapid.T, backend string, nops int) []xp.StoreOp {
	var ops []xp.StoreOp
	// keys already written, to aim reads at existing entries
	var written [][]byte
	pickKey := func(label string) []byte {
		if len(written) > 0 && rapid.IntRange(0, 2).Draw(rt, label+"-known") != 0 {
			return written[rapid.IntRange(0, len(written)-1).Draw(rt, label+"-i")]
		}
		return keyGen().Draw(rt, label)
	}
	tbl := func() int { return rapid.IntRange(0, 4).Draw(rt, "table") }
	for i := 0; i < nops; i++ {
		kinds := []string{"mutate", "mutate", "mutate", "get", "range", "all", "last"}
		if backend == "rocks" {
			kinds = append(kinds, "reopen")
		}
		switch k := rapid.SampledFrom(kinds).Draw(rt, "op"); k {
		case "mutate":
			op := xp.StoreOp{Op: "mutate"}
			for j, m := 0, rapid.IntRange(1, 20).Draw(rt, "nmut"); j < m; j++ {
				key := pickKey("mkey")
				written = append(written, key)
				op.Muts = append(op.Muts, xp.KV{T: tbl(), K: key, V: rapid.SliceOfN(rapid.Byte(), 0, 50).Draw(rt, "val")})
			}
			ops = append(ops, op)
		case "get":
			ops = append(ops, xp.StoreOp{Op: "get", T: tbl(), K: pickKey("gkey")})
		case "range":
			ops = append(ops, xp.StoreOp{Op: "range", T: tbl(), S: pickKey("start"), E: pickKey("end")})
		case "all":
			ops = append(ops, xp.StoreOp{Op: "all", T: tbl(), Buf: rapid.SampledFrom(bufs).Draw(rt, "buf")})
		default:
			ops = append(ops, xp.StoreOp{Op: k, T: tbl()})
		}
	}
	return ops
}

func TestBPlus(t *testing.T) {
	rec := pbt.NewRec("C14", "TestBPlus", rule, "bplus has no locking; concurrent use is outside what its callers do and is not generated")
	pbt.Run(t, rec, func(rt *rapid.T) H {
		return H{Backend: "bplus", Ops: drawOps(rt, "bplus", rapid.IntRange(1, 40).Draw(rt, "nops"))}
	}, exec)
}

func TestRocks(t *testing.T) {
	rec := pbt.NewRec("C14", "TestRocks", rule, "RocksDB 7.8 (Debian build, assertions on) is the trusted base for durability")
	pbt.Run(t, rec, func(rt *rapid.T) H {
		return H{Backend: "rocks", Ops: drawOps(rt, "rocks", rapid.IntRange(1, 60).Draw(rt, "nops"))}
	}, exec)
}

type model [5]map[string][]byte

func (m *model) sorted(t int) []string {
	ks := make([]string, 0, len(m[t]))
	for k := range m[t] {
		ks = append(ks, k)
	}
	sort.Strings(ks)
	return ks
}

func (m *model) expect(op xp.StoreOp) (want xp.StoreObs) {
	switch op.Op {
	case "mutate":
		for _, kv := range op.Muts {
			m[kv.T][string(kv.K)] = kv.V
		}
	case "get":
		v, ok := m[op.T][string(op.K)]
		if !ok {
			want.NotFound = true
		} else {
			want.KVs = []xp.KV{{K: op.K, V: v}}
		}
	case "range":
		for _, k := range m.sorted(op.T) {
			if bytes.Compare([]byte(k), op.S) >= 0 && bytes.Compare([]byte(k), op.E) <= 0 {
				want.KVs = append(want.KVs, xp.KV{K: []byte(k), V: m[op.T][k]})
			}
		}
	case "all":
		for _, k := range m.sorted(op.T) {
			want.KVs = append(want.KVs, xp.KV{K: []byte(k), V: m[op.T][k]})
		}
	case "last":
		ks := m.sorted(op.T)
		if len(ks) == 0 {
			want.NotFound = true
		} else {
			k := ks[len(ks)-1]
			want.KVs = []xp.KV{{K: []byte(k), V: m[op.T][k]}}
		}
	}
	return
}

func same(got, want xp.StoreObs) error {
	if got.Err != "" {
		return fmt.Errorf("returned error %q", got.Err)
	}
	if got.NotFound != want.NotFound {
		return fmt.Errorf("not-found=%v, model says %v (model value %v)", got.NotFound, want.NotFound, want.KVs)
	}
	if len(got.KVs) != len(want.KVs) {
		return fmt.Errorf("returned %d entries %s, model has %d %s", len(got.KVs), brief(got.KVs), len(want.KVs), brief(want.KVs))
	}
	for i := range want.KVs {
		if !bytes.Equal(got.KVs[i].K, want.KVs[i].K) {
			return fmt.Errorf("entry %d has key %x, model %x (got %s, model %s)", i, got.KVs[i].K, want.KVs[i].K, brief(got.KVs), brief(want.KVs))
		}
		if !bytes.Equal(got.KVs[i].V, want.KVs[i].V) {
			return fmt.Errorf("key %x has value %x, model %x", want.KVs[i].K, got.KVs[i].V, want.KVs[i].V)
		}
	}
	return nil
}

func brief(kvs []xp.KV) string {
	s := "["
	for i, kv := range kvs {
		if i == 6 {
			s += " …"
			break
		}
		s += fmt.Sprintf(" %x", kv.K)
	}
	return s + " ]"
}

func bplusOp(st *bplus.BPlusTreeStore, op xp.StoreOp) (obs xp.StoreObs) {
	t := storage.Table(op.T)
	switch op.Op {
	case "mutate":
		var ms []*storage.Mutation
		for _, m := range op.Muts {
			ms = append(ms, storage.NewMutation(storage.Table(m.T), m.K, m.V))
		}
		if err := st.Mutate(ms, nil); err != nil {
			obs.Err = err.Error()
		}
	case "get":
		kv, err := st.Get(t, op.K)
		if err == storage.ErrKeyNotFound {
			obs.NotFound = true
		} else if err != nil {
			obs.Err = err.Error()
		} else {
			obs.KVs = []xp.KV{{K: kv.Key, V: kv.Value}}
		}
	case "range":
		rg, err := st.GetRange(t, op.S, op.E)
		if err != nil {
			obs.Err = err.Error()
		}
		for _, kv := range rg {
			obs.KVs = append(obs.KVs, xp.KV{K: kv.Key, V: kv.Value})
		}
	case "all":
		rd := st.GetAll(t)
		buf := make([]*storage.KVPair, op.Buf)
		for rounds := 0; rounds < 100000; rounds++ {
			n, err := rd.Read(buf)
			if err != nil {
				obs.Err = err.Error()
				break
			}
			if n == 0 {
				break
			}
			for i := 0; i < n; i++ {
				obs.KVs = append(obs.KVs, xp.KV{K: buf[i].Key, V: buf[i].Value})
			}
		}
		rd.Close()
	case "last":
		kv, err := st.GetLast(t)
		if err == storage.ErrKeyNotFound {
			obs.NotFound = true
		} else if err != nil {
			obs.Err = err.Error()
		} else {
			obs.KVs = []xp.KV{{K: kv.Key, V: kv.Value}}
		}
	}
	return
}

func exec(h H, rec *pbt.Rec) error {
	var m model
	for i := range m {
		m[i] = map[string][]byte{}
	}
	var got []xp.StoreObs
	var x *rig.Exec
	if h.Backend == "bplus" {
		st := bplus.NewBPlusTreeStore()
		for _, op := range h.Ops {
			var obs xp.StoreObs
			if p, v := pbt.Panics(func() { obs = bplusOp(st, op) }); p {
				obs.Err = "panic: " + v
			}
			got = append(got, obs)
		}
	} else {
		var err error
		x, err = rig.StartExec("nodeexec")
		if err != nil {
			return fmt.Errorf("cannot start executor: %v", err)
		}
		defer x.Kill()
		dir := rig.WorkDir("c14")
		if r, err := x.Call(&xp.Req{Op: "store-open", Name: "s", Path: dir}, 30*time.Second); err != nil || r.Err != "" {
			return fmt.Errorf("open: %v %v", err, r)
		}
		r, err := x.Call(&xp.Req{Op: "store-run", Name: "s", StoreOps: h.Ops}, 120*time.Second)
		if err != nil {
			return fmt.Errorf("the process holding the store died while running the sequence: %v", err)
		}
		got = r.StoreObs
	}
	if len(got) != len(h.Ops) {
		return fmt.Errorf("%d observations for %d operations", len(got), len(h.Ops))
	}
	nt := false
	reopened := false
	for i, op := range h.Ops {
		want := m.expect(op)
		if op.Op == "reopen" {
			reopened = true
			if got[i].Err != "" {
				return fmt.Errorf("op %d reopen: %s", i, got[i].Err)
			}
			continue
		}
		if err := same(got[i], want); err != nil {
			return fmt.Errorf("op %d %s(table %d k=%x s=%x e=%x buf=%d) on %s: %v", i, op.Op, op.T, op.K, op.S, op.E, op.Buf, h.Backend, err)
		}
		if op.Op == "all" || op.Op == "last" || op.Op == "range" {
			pop := 0
			other := false
			for t := range m {
				if len(m[t]) > 0 {
					pop++
					if t != op.T {
						other = true
					}
				}
			}
			if pop >= 2 && other {
				nt = true
			}
			rec.Class(h.Backend+":"+op.Op, 1)
		}
	}
	if x != nil {
		// final full scan after close+reopen, then a clean end of the child
		r, err := x.Call(&xp.Req{Op: "store-run", Name: "s", StoreOps: []xp.StoreOp{{Op: "reopen"}, {Op: "all", T: 0, Buf: 7}, {Op: "all", T: 1, Buf: 1000}, {Op: "all", T: 2, Buf: 1}, {Op: "all", T: 3, Buf: 100}, {Op: "all", T: 4, Buf: 2}}}, 60*time.Second)
		if err != nil {
			return fmt.Errorf("close+reopen at the end: %v", err)
		}
		for t := 0; t < 5; t++ {
			if err := same(r.StoreObs[t+1], m.expect(xp.StoreOp{Op: "all", T: t})); err != nil {
				return fmt.Errorf("after close and reopen, full scan of table %d: %v", t, err)
			}
		}
		if r, err := x.Call(&xp.Req{Op: "store-close", Name: "s"}, 30*time.Second); err != nil || r.Err != "" {
			return fmt.Errorf("closing the store: %v %v", err, r)
		}
		if d := x.Exit(); d.ExitCode != 0 || d.Signal != "" {
			return fmt.Errorf("process holding the store did not end cleanly: %v", d)
		}
	}
	cls := []string{}
	if reopened {
		cls = append(cls, "reopen")
	}
	rec.Case(h, nt, cls...)
	rec.Sample(len(h.Ops), h)
	return nil
}

// Atomic visibility of a batch across tables, RocksDB only.
func TestRocksAtomicBatch(t *testing.T) {
	defer pbt.CleanWork()
	rec := pbt.NewRec("C14", "TestRocksAtomicBatch", "for batch sizes m in {2, 200, 1023, 1024, 1025, 3001} (first mutation in the history table, last in the FSM-state table, the rest in the hyper table, all := i): (1) a writer thread applies batches i=1..N while a reader reads the first-written key, then the last-written key; atomic batches imply last >= first at every read; (2) the process is SIGKILLed while it keeps writing such batches (after 60..400 ms), the store is reopened in a new process and every key of the batch must hold the same i (a batch is there entirely or not at all). evaluations = (size, run) pairs; the number of interleaved reads is in the counters.")
	defer rec.Flush()
	sizes := []int{2, 200, 1023, 1024, 1025, 3001}
	for si, m := range sizes {
		x, err := rig.StartExec("nodeexec")
		if err != nil {
			t.Fatal(err)
		}
		dir := rig.WorkDir(fmt.Sprintf("c14a-%d", m))
		if r, err := x.Call(&xp.Req{Op: "store-open", Name: "s", Path: dir}, 30*time.Second); err != nil || r.Err != "" {
			x.Kill()
			t.Fatalf("open: %v %v", err, r)
		}
		n := pbt.Scale(40000, 600000) / m
		if n < 150 {
			n = 150
		}
		r, err := x.Call(&xp.Req{Op: "store-atomic", Name: "s", N: uint64(n), A: uint64(m)}, 600*time.Second)
		if err != nil {
			x.Kill()
			t.Fatal(err)
		}
		// the number of reads that interleaved with the writes varies with machine load and is
		// reported as a counter, not as the evaluation count
		rec.CaseHash(uint64(pbt.Shard())*100+uint64(si)+1, r.Emitted > 0)
		rec.Class(fmt.Sprintf("visibility:m=%d", m), 1)
		rec.Count("reads", int64(r.Emitted))
		rec.Count("writes", int64(n))
		rec.Sample(m, map[string]int{"batch_size": m, "writes": n, "reads": r.Emitted, "violations": r.Bad})
		if r.Bad > 0 {
			x.Kill()
			p := pbt.SaveReplay("C14", "TestRocksAtomicBatch", map[string]int{"writes": n, "batch_size": m}, fmt.Errorf("%d reads saw a half-applied batch", r.Bad))
			pbt.Violation("C14", p, fmt.Sprintf("batches of %d mutations: %d of %d reads saw a half-applied batch (the key written last was older than the key written first)", m, r.Bad, r.Emitted))
			t.Fatalf("%d reads saw a half-applied batch", r.Bad)
		}
		// (2) kill while writing, reopen
		kills := pbt.Scale(2, 12)
		for k := 0; k < kills; k++ {
			if _, err := x.Call(&xp.Req{Op: "store-atomic-bg", Name: "s", A: uint64(m)}, 30*time.Second); err != nil {
				t.Fatal(err)
			}
			time.Sleep(time.Duration(60+((k*97+si*41+pbt.Shard()*13)%340)) * time.Millisecond)
			x.Kill()
			x, err = rig.StartExec("nodeexec")
			if err != nil {
				t.Fatal(err)
			}
			if r, err := x.Call(&xp.Req{Op: "store-open", Name: "s", Path: dir}, 60*time.Second); err != nil || r.Err != "" {
				x.Kill()
				p := pbt.SaveReplay("C14", "TestRocksAtomicBatch", map[string]int{"batch_size": m, "kill": k}, fmt.Errorf("reopen after kill: %v %v", err, r))
				pbt.Violation("C14", p, fmt.Sprintf("the store does not reopen after a SIGKILL while writing batches of %d mutations: %v %v", m, err, r))
				t.Fatalf("reopen failed")
			}
			rr, err := x.Call(&xp.Req{Op: "store-atomic-read", Name: "s", A: uint64(m)}, 60*time.Second)
			if err != nil {
				x.Kill()
				t.Fatal(err)
			}
			rec.CaseHash(uint64(pbt.Shard())*100000+uint64(si)*100+uint64(k)+7, rr.URL != "" && rr.URL != fmt.Sprintf("%016d", 0))
			rec.Class(fmt.Sprintf("kill-reopen:m=%d", m), 1)
			if rr.Err != "" || rr.Bad > 0 {
				x.Kill()
				p := pbt.SaveReplay("C14", "TestRocksAtomicBatch", map[string]int{"batch_size": m, "kill": k}, fmt.Errorf("%d keys differ: %s", rr.Bad, rr.Err))
				pbt.Violation("C14", p, fmt.Sprintf("after a SIGKILL while writing batches of %d mutations and a reopen, the first key of the batch holds %s but %d of the batch's other keys hold something else %s: the batch is there in part", m, rr.URL, rr.Bad, rr.Err))
				t.Fatalf("partial batch after kill")
			}
		}
		x.Kill()
		pbt.CleanWork()
	}
}
