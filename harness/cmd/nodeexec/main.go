// nodeexec is the executor child: it opens real RocksDB stores, raft log
// stores and RaftNodes and obeys line-delimited JSON commands on stdin. Its
// death (FSM panic, RocksDB abort, planned SIGKILL) is data for the parent.
package main

import (
	"bufio"
	"bytes"
	"crypto/sha256"
	"encoding/hex"
	"encoding/json"
	"fmt"
	"io"
	"net/http/httptest"
	"os"
	"path/filepath"
	"runtime"
	"strings"
	"sync"
	"sync/atomic"
	"syscall"
	"time"

	"github.com/bbva/qed/api/mgmthttp"
	"github.com/bbva/qed/balloon"
	qedcmd "github.com/bbva/qed/cmd"
	"github.com/bbva/qed/consensus"
	"github.com/bbva/qed/crypto/hashing"
	"github.com/bbva/qed/log"
	"github.com/bbva/qed/protocol"
	"github.com/bbva/qed/storage"
	"github.com/bbva/qed/storage/rocks"
	"github.com/hashicorp/raft"

	"verif/xp"
)

var tables = []storage.Table{storage.DefaultTable, storage.HyperTable, storage.HyperCacheTable, storage.HistoryTable, storage.FSMStateTable}

type world struct {
	stores map[string]*storeH
	rlogs  map[string]*rlogH
	nodes  map[string]*nodeH
	srvs   map[string]*srvH
}

type storeH struct {
	path string
	st   *rocks.RocksDBStore
	bal  *balloon.Balloon // ops "store-balloon-*": a Balloon directly on this store (no raft)
}

type rlogH struct {
	path   string
	nosync bool
	st     consensus.VerifLogStore
}

type nodeH struct {
	node     *consensus.RaftNode
	fs       *faultyStore
	ch       chan *protocol.Snapshot
	emitted  int64
	mu       sync.Mutex
	pending  *pendingAdd
	pendingQ chan []xp.Answer
	mgmt     *httptest.Server
	handed   []xp.Snap // snapshots received on the node's snapshots channel (what goes to the gossip sender)
}

type pendingAdd struct {
	done  chan struct{}
	snaps []xp.Snap
	err   error
}

func main() {
	log.SetDefault(log.New(&log.LoggerOptions{Level: log.Off}))
	if os.Getenv("NODEEXEC_LOG") != "" {
		log.SetDefault(log.New(&log.LoggerOptions{Level: log.LevelFromString(os.Getenv("NODEEXEC_LOG")), Output: os.Stderr}))
	}
	w := &world{stores: map[string]*storeH{}, rlogs: map[string]*rlogH{}, nodes: map[string]*nodeH{}, srvs: map[string]*srvH{}}
	in := bufio.NewReaderSize(os.Stdin, 1<<20)
	// the protocol keeps the original stdout; whatever QED code prints to
	// standard output (the command line does) goes to stderr instead
	pfd, err := syscall.Dup(1)
	if err != nil {
		os.Exit(3)
	}
	syscall.Dup2(2, 1)
	os.Stdout = os.Stderr
	out := bufio.NewWriter(os.NewFile(uintptr(pfd), "protocol"))
	for {
		line, err := in.ReadBytes('\n')
		if len(line) > 0 {
			var req xp.Req
			if jerr := json.Unmarshal(line, &req); jerr != nil {
				fmt.Fprintf(os.Stderr, "nodeexec: bad request: %v\n", jerr)
				os.Exit(3)
			}
			start := time.Now()
			resp := w.handle(&req)
			resp.ID = req.ID
			resp.Ms = time.Since(start).Milliseconds()
			b, _ := json.Marshal(resp)
			out.Write(b)
			out.WriteByte('\n')
			out.Flush()
			if req.Op == "exit" {
				os.Exit(0)
			}
		}
		if err != nil {
			if err == io.EOF {
				os.Exit(0)
			}
			os.Exit(3)
		}
	}
}

func errStr(err error) string {
	if err == nil {
		return ""
	}
	return err.Error()
}

func (w *world) handle(r *xp.Req) (resp *xp.Resp) {
	resp = &xp.Resp{}
	switch {
	case strings.HasPrefix(r.Op, "store-"):
		w.storeOp(r, resp)
	case strings.HasPrefix(r.Op, "rlog-"):
		w.rlogOp(r, resp)
	case strings.HasPrefix(r.Op, "node-"):
		w.nodeOp(r, resp)
	case strings.HasPrefix(r.Op, "srv-"):
		w.srvOp(r, resp)
	case r.Op == "cli":
		// the real `qed` command line, in this process: qed <args...>
		qedcmd.Root.SetArgs(r.Args)
		resp.Err = errStr(qedcmd.Root.Execute())
	case r.Op == "ping", r.Op == "exit":
	default:
		resp.Err = "unknown op " + r.Op
	}
	return resp
}

// ------------------------------------------------------------------ store

func openStore(path string) (*rocks.RocksDBStore, error) {
	if err := os.MkdirAll(path, 0o755); err != nil {
		return nil, err
	}
	return rocks.NewRocksDBStore(path, 0)
}

func (w *world) storeOp(r *xp.Req, resp *xp.Resp) {
	switch r.Op {
	case "store-open":
		st, err := openStore(r.Path)
		if err != nil {
			resp.Err = err.Error()
			return
		}
		w.stores[r.Name] = &storeH{path: r.Path, st: st}
	case "store-close":
		h := w.stores[r.Name]
		if h == nil {
			resp.Err = "no such store"
			return
		}
		if h.bal != nil {
			h.bal.Close()
			h.bal = nil
		}
		resp.Err = errStr(h.st.Close())
		delete(w.stores, r.Name)
	case "store-run":
		h := w.stores[r.Name]
		if h == nil {
			resp.Err = "no such store"
			return
		}
		for _, op := range r.StoreOps {
			resp.StoreObs = append(resp.StoreObs, runStoreOp(h, op))
		}
	case "store-atomic":
		h := w.stores[r.Name]
		if h == nil {
			resp.Err = "no such store"
			return
		}
		resp.Bad, resp.Emitted = atomicVisibility(h.st, int(r.N), int(r.A))
	case "store-atomic-bg":
		// keeps writing batches of r.A mutations until the process is killed
		h := w.stores[r.Name]
		if h == nil {
			resp.Err = "no such store"
			return
		}
		m := int(r.A)
		h.st.Mutate(atomicBatch(0, m), nil)
		go func() {
			for i := 1; ; i++ {
				h.st.Mutate(atomicBatch(i, m), nil)
			}
		}()
	case "store-atomic-read":
		h := w.stores[r.Name]
		if h == nil {
			resp.Err = "no such store"
			return
		}
		first, differ, err := atomicRead(h.st, int(r.A))
		resp.Err, resp.Bad, resp.URL = errStr(err), differ, first
	case "store-balloon-open", "store-balloon-reopen":
		// a real Balloon directly on the RocksDB store; reopen = close the balloon and the
		// store (an abort inside RocksDB's close is the death of this child), open both again
		h := w.stores[r.Name]
		if h == nil {
			resp.Err = "no such store"
			return
		}
		if r.Op == "store-balloon-reopen" {
			if h.bal != nil {
				h.bal.Close()
				h.bal = nil
			}
			if err := h.st.Close(); err != nil {
				resp.Err = "close: " + err.Error()
				return
			}
			st, err := openStore(h.path)
			if err != nil {
				resp.Err = "reopen: " + err.Error()
				return
			}
			h.st = st
		}
		bal, err := balloon.NewBalloon(h.st, hashing.NewSha256Hasher)
		if err != nil {
			resp.Err = "NewBalloon: " + err.Error()
			return
		}
		h.bal = bal
		resp.State = &xp.State{BalloonVersion: bal.Version()}
	case "store-balloon-add":
		// r.Events are event digests; r.Wait = one AddBulk call, else one Add per digest.
		// Mutations are written after every call, as the FSM does.
		h := w.stores[r.Name]
		if h == nil || h.bal == nil {
			resp.Err = "no such balloon"
			return
		}
		func() {
			defer func() {
				if p := recover(); p != nil {
					resp.Err = fmt.Sprintf("panic: %v", p)
					resp.ErrKind = "panic"
				}
			}()
			var snaps []*balloon.Snapshot
			var muts []*storage.Mutation
			var err error
			if r.Wait {
				ds := make([]hashing.Digest, len(r.Events))
				for i := range r.Events {
					ds[i] = append([]byte(nil), r.Events[i]...)
				}
				snaps, muts, err = h.bal.AddBulk(ds)
				if err == nil {
					err = h.st.Mutate(muts, []byte("meta"))
				}
			} else {
				for _, e := range r.Events {
					var s *balloon.Snapshot
					s, muts, err = h.bal.Add(append([]byte(nil), e...))
					if err != nil {
						break
					}
					if err = h.st.Mutate(muts, []byte("meta")); err != nil {
						break
					}
					snaps = append(snaps, s)
				}
			}
			if err != nil {
				resp.Err = err.Error()
				return
			}
			for _, s := range snaps {
				resp.Snaps = append(resp.Snaps, xp.Snap{Version: s.Version, Event: s.EventDigest, History: s.HistoryDigest, Hyper: s.HyperDigest})
			}
		}()
	case "store-balloon-query":
		h := w.stores[r.Name]
		if h == nil || h.bal == nil {
			resp.Err = "no such balloon"
			return
		}
		resp.Answers = runQueries(h.bal, r.Queries, time.Duration(r.N)*time.Millisecond)
	case "store-dump":
		h := w.stores[r.Name]
		if h == nil {
			resp.Err = "no such store"
			return
		}
		dump(h.st, resp, r.Tables)
	case "store-load-snapshot":
		h := w.stores[r.Name]
		if h == nil {
			resp.Err = "no such store"
			return
		}
		// r.A > 0: the stream breaks with an error after A-1 complete chunks, the way
		// a leader's refusal ("Gap found between versions") or a lost connection
		// reaches the follower
		resp.Err = errStr(h.st.LoadSnapshot(&chunkStream{chunks: r.Chunks, failAt: int(r.A)}))
	default:
		resp.Err = "unknown op " + r.Op
	}
}

func runStoreOp(h *storeH, op xp.StoreOp) (obs xp.StoreObs) {
	defer func() {
		if p := recover(); p != nil {
			obs.Err = fmt.Sprintf("panic: %v", p)
		}
	}()
	t := storage.Table(op.T)
	switch op.Op {
	case "mutate":
		var ms []*storage.Mutation
		for _, m := range op.Muts {
			ms = append(ms, storage.NewMutation(storage.Table(m.T), m.K, m.V))
		}
		obs.Err = errStr(h.st.Mutate(ms, []byte("meta")))
	case "get":
		kv, err := h.st.Get(t, op.K)
		if err == storage.ErrKeyNotFound {
			obs.NotFound = true
		} else if err != nil {
			obs.Err = err.Error()
		} else {
			obs.KVs = []xp.KV{{K: kv.Key, V: kv.Value}}
		}
	case "range":
		rg, err := h.st.GetRange(t, op.S, op.E)
		if err != nil {
			obs.Err = err.Error()
		}
		for _, kv := range rg {
			obs.KVs = append(obs.KVs, xp.KV{K: kv.Key, V: kv.Value})
		}
	case "all":
		rd := h.st.GetAll(t)
		buf := make([]*storage.KVPair, op.Buf)
		for rounds := 0; rounds < 1_000_000; rounds++ {
			n, err := rd.Read(buf)
			if err != nil {
				obs.Err = err.Error()
				break
			}
			if n == 0 {
				break
			}
			for i := 0; i < n; i++ {
				obs.KVs = append(obs.KVs, xp.KV{K: buf[i].Key, V: buf[i].Value})
			}
		}
		rd.Close()
	case "last":
		kv, err := h.st.GetLast(t)
		if err == storage.ErrKeyNotFound {
			obs.NotFound = true
		} else if err != nil {
			obs.Err = err.Error()
		} else {
			obs.KVs = []xp.KV{{K: kv.Key, V: kv.Value}}
		}
	case "reopen":
		if err := h.st.Close(); err != nil {
			obs.Err = "close: " + err.Error()
			return
		}
		st, err := openStore(h.path)
		if err != nil {
			obs.Err = "reopen: " + err.Error()
			return
		}
		h.st = st
	default:
		obs.Err = "unknown store op " + op.Op
	}
	return
}

// atomicVisibility: a writer batches [B:=i, A:=i] (B first) while a reader
// reads B then A; with atomic batches A >= B always. Returns (#violations, #reads).
// atomicBatch is the i-th batch of m mutations: the first goes to the history
// table, the last to the FSM-state table (the order the FSM uses), the rest to
// the hyper table; every value is i.
func atomicBatch(i, m int) []*storage.Mutation {
	be := []byte(fmt.Sprintf("%016d", i))
	ms := make([]*storage.Mutation, 0, m)
	ms = append(ms, storage.NewMutation(storage.HistoryTable, []byte("B"), be))
	for j := 0; j < m-2; j++ {
		ms = append(ms, storage.NewMutation(storage.HyperTable, []byte(fmt.Sprintf("f%06d", j)), be))
	}
	ms = append(ms, storage.NewMutation(storage.FSMStateTable, []byte("A"), be))
	return ms
}

func atomicVisibility(st *rocks.RocksDBStore, n, m int) (bad, reads int) {
	if m < 2 {
		m = 2
	}
	var stop int32
	var wg sync.WaitGroup
	wg.Add(1)
	st.Mutate(atomicBatch(0, m), nil)
	go func() {
		defer wg.Done()
		for i := 1; i <= n; i++ {
			st.Mutate(atomicBatch(i, m), nil)
		}
		atomic.StoreInt32(&stop, 1)
	}()
	for atomic.LoadInt32(&stop) == 0 {
		// first-written key first, last-written key second: with an atomic batch the second
		// read can never be older than the first
		b, err1 := st.Get(storage.HistoryTable, []byte("B"))
		a, err2 := st.Get(storage.FSMStateTable, []byte("A"))
		if err1 != nil || err2 != nil {
			bad++
			continue
		}
		reads++
		if bytes.Compare(a.Value, b.Value) < 0 {
			bad++
		}
	}
	wg.Wait()
	return
}

// atomicRead reports, after a reopen, the value of the first key of the last
// batch and how many of the batch's other keys hold a different value.
func atomicRead(st *rocks.RocksDBStore, m int) (first string, differ int, err error) {
	b, err := st.Get(storage.HistoryTable, []byte("B"))
	if err != nil {
		return "", 0, err
	}
	first = string(b.Value)
	chk := func(t storage.Table, k []byte) {
		kv, e := st.Get(t, k)
		if e != nil || string(kv.Value) != first {
			differ++
		}
	}
	for j := 0; j < m-2; j++ {
		chk(storage.HyperTable, []byte(fmt.Sprintf("f%06d", j)))
	}
	chk(storage.FSMStateTable, []byte("A"))
	return
}

func dump(st storage.Store, resp *xp.Resp, full bool) {
	resp.DumpHash = map[string]string{}
	resp.DumpCount = map[string]int{}
	if full {
		resp.DumpKVs = map[string][]xp.KV{}
	}
	for _, t := range tables {
		h := sha256.New()
		n := 0
		rd := st.GetAll(t)
		buf := make([]*storage.KVPair, 500)
		for {
			k, err := rd.Read(buf)
			if err != nil || k == 0 {
				break
			}
			for i := 0; i < k; i++ {
				fmt.Fprintf(h, "%d:%x=%d:%x;", len(buf[i].Key), buf[i].Key, len(buf[i].Value), buf[i].Value)
				n++
				if full {
					resp.DumpKVs[t.String()] = append(resp.DumpKVs[t.String()], xp.KV{K: buf[i].Key, V: buf[i].Value})
				}
			}
		}
		rd.Close()
		resp.DumpHash[t.String()] = hex.EncodeToString(h.Sum(nil))
		resp.DumpCount[t.String()] = n
	}
}

// --------------------------------------------------------------- raft log

func (w *world) rlogOp(r *xp.Req, resp *xp.Resp) {
	switch r.Op {
	case "rlog-open":
		os.MkdirAll(filepath.Dir(r.Path), 0o755)
		st, err := consensus.VerifNewRaftLog(r.Path, r.NoSync)
		if err != nil {
			resp.Err = err.Error()
			return
		}
		w.rlogs[r.Name] = &rlogH{r.Path, r.NoSync, st}
	case "rlog-close":
		h := w.rlogs[r.Name]
		if h == nil {
			resp.Err = "no such log store"
			return
		}
		resp.Err = errStr(h.st.Close())
		delete(w.rlogs, r.Name)
	case "rlog-run":
		h := w.rlogs[r.Name]
		if h == nil {
			resp.Err = "no such log store"
			return
		}
		for _, op := range r.LogOps {
			resp.LogObs = append(resp.LogObs, runLogOp(h, op))
		}
	default:
		resp.Err = "unknown op " + r.Op
	}
}

func toRaft(e xp.LogEntry) *raft.Log {
	l := &raft.Log{Index: e.Index, Term: e.Term, Type: raft.LogType(e.Type), Data: e.Data, Extensions: e.Ext}
	if e.Nil[0] {
		l.Data = nil
	} else if l.Data == nil {
		l.Data = []byte{}
	}
	if e.Nil[1] {
		l.Extensions = nil
	} else if l.Extensions == nil {
		l.Extensions = []byte{}
	}
	return l
}

func runLogOp(h *rlogH, op xp.LogOp) (obs xp.LogObs) {
	defer func() {
		if p := recover(); p != nil {
			obs.Err = fmt.Sprintf("panic: %v", p)
		}
	}()
	switch op.Op {
	case "store":
		obs.Err = errStr(h.st.StoreLog(toRaft(op.Entries[0])))
	case "stores":
		var ls []*raft.Log
		for _, e := range op.Entries {
			ls = append(ls, toRaft(e))
		}
		obs.Err = errStr(h.st.StoreLogs(ls))
	case "get":
		var l raft.Log
		err := h.st.GetLog(op.Index, &l)
		if err == raft.ErrLogNotFound {
			obs.NotFound = true
		} else if err != nil {
			obs.Err = err.Error()
		} else {
			obs.Entry = &xp.LogEntry{Index: l.Index, Term: l.Term, Type: uint8(l.Type), Data: l.Data, Ext: l.Extensions, Nil: [2]bool{l.Data == nil, l.Extensions == nil}}
		}
	case "delrange":
		obs.Err = errStr(h.st.DeleteRange(op.Min, op.Max))
	case "first":
		u, err := h.st.FirstIndex()
		obs.U, obs.Err = u, errStr(err)
	case "last":
		u, err := h.st.LastIndex()
		obs.U, obs.Err = u, errStr(err)
	case "set":
		obs.Err = errStr(h.st.Set(op.K, op.V))
	case "get-k":
		v, err := h.st.Get(op.K)
		if err != nil && err.Error() == "not found" {
			obs.NotFound = true
		} else if err != nil {
			obs.Err = err.Error()
		} else {
			obs.V = v
			if v == nil {
				obs.V = []byte{}
			}
		}
	case "setu":
		obs.Err = errStr(h.st.SetUint64(op.K, op.U))
	case "getu":
		u, err := h.st.GetUint64(op.K)
		if err != nil && err.Error() == "not found" {
			obs.NotFound = true
		} else if err != nil {
			obs.Err = err.Error()
		} else {
			obs.U = u
		}
	case "reopen", "reopen-toggle":
		// reopen-toggle: the operator changed the raft log's sync option between two lives
		if err := h.st.Close(); err != nil {
			obs.Err = "close: " + err.Error()
			return
		}
		if op.Op == "reopen-toggle" {
			h.nosync = !h.nosync
		}
		st, err := consensus.VerifNewRaftLog(h.path, h.nosync)
		if err != nil {
			obs.Err = "reopen: " + err.Error()
			return
		}
		h.st = st
	default:
		obs.Err = "unknown log op " + op.Op
	}
	return
}

// ------------------------------------------------------------ faulty store

// faultyStore wraps the real RocksDBStore; RaftNode takes its store as an
// argument, so crash points and the apply-window gate need no repo hook.
type faultyStore struct {
	*rocks.RocksDBStore
	plan     xp.Plan
	mutates  int32
	parked   int32
	release  chan struct{}
	released int32
}

func (f *faultyStore) Mutate(ms []*storage.Mutation, meta []byte) error {
	k := int(atomic.AddInt32(&f.mutates, 1))
	if f.plan.KillBefore == k {
		syscall.Kill(os.Getpid(), syscall.SIGKILL)
		select {}
	}
	if f.plan.Gate == k {
		atomic.StoreInt32(&f.parked, 1)
		<-f.release
		atomic.StoreInt32(&f.parked, 0)
	}
	if f.plan.KillDuring == k {
		go func() {
			time.Sleep(time.Duration(f.plan.KillDelayUs) * time.Microsecond)
			syscall.Kill(os.Getpid(), syscall.SIGKILL)
		}()
	}
	if f.plan.FailAt == k {
		return fmt.Errorf("IO error: No space left on device (injected write fault)")
	}
	err := f.RocksDBStore.Mutate(ms, meta)
	if f.plan.KillAfter == k {
		syscall.Kill(os.Getpid(), syscall.SIGKILL)
		select {}
	}
	return err
}

// ------------------------------------------------------------------- node

func openNode(o *xp.NodeOpts) (*nodeH, error) {
	dbDir, raftDir := o.DBDir, o.RaftDir
	if dbDir == "" {
		dbDir = filepath.Join(o.Dir, "db")
	}
	if raftDir == "" {
		raftDir = filepath.Join(o.Dir, "raft")
	}
	if err := os.MkdirAll(dbDir, 0o755); err != nil {
		return nil, err
	}
	if err := os.MkdirAll(raftDir, 0o755); err != nil {
		return nil, err
	}
	st, err := rocks.NewRocksDBStore(dbDir, 0)
	if err != nil {
		return nil, fmt.Errorf("open db: %v", err)
	}
	fs := &faultyStore{RocksDBStore: st, plan: o.Plan, release: make(chan struct{})}
	opts := consensus.DefaultClusteringOptions()
	opts.NodeID = o.ID
	opts.Addr = o.Addr
	opts.HttpAddr = "127.0.0.1:0"
	opts.MgmtAddr = "127.0.0.1:0"
	opts.Bootstrap = o.Bootstrap
	opts.Seeds = o.Seeds
	opts.RaftLogPath = raftDir
	opts.SnapshotThreshold = o.SnapshotThreshold
	opts.TrailingLogs = o.TrailingLogs
	to := time.Duration(o.TimeoutMs) * time.Millisecond
	if to == 0 {
		to = 300 * time.Millisecond
	}
	opts.RaftHeartbeatTimeout, opts.RaftElectionTimeout, opts.RaftLeaseTimeout = to, to, to
	opts.RaftCommitTimeout = 5 * time.Millisecond
	h := &nodeH{fs: fs, ch: make(chan *protocol.Snapshot, 1<<16)}
	go func() {
		for s := range h.ch {
			atomic.AddInt64(&h.emitted, 1)
			h.mu.Lock()
			if len(h.handed) < 100000 {
				// copy at the time of hand-over: what the sender would sign
				h.handed = append(h.handed, xp.Snap{Version: s.Version, Event: append([]byte{}, s.EventDigest...), History: append([]byte{}, s.HistoryDigest...), Hyper: append([]byte{}, s.HyperDigest...)})
			}
			h.mu.Unlock()
		}
	}()
	node, err := consensus.NewRaftNode(opts, fs, h.ch, nil)
	if err != nil {
		// NewRaftNode closes the store itself on most of its error paths
		// (node.Close): closing it again here would be a double free
		return nil, err
	}
	h.node = node
	return h, nil
}

func classify(err error) string {
	switch {
	case err == nil:
		return ""
	case err == raft.ErrNotLeader:
		return "not-leader"
	case err == raft.ErrLeadershipLost:
		return "leadership-lost"
	case err == raft.ErrEnqueueTimeout:
		return "enqueue-timeout"
	case err == raft.ErrRaftShutdown:
		return "shutdown"
	case err == raft.ErrLeadershipTransferInProgress:
		return "transfer-in-progress"
	}
	return "other"
}

func (w *world) nodeOp(r *xp.Req, resp *xp.Resp) {
	if r.Op == "node-open" {
		h, err := openNode(r.Node)
		if err != nil {
			resp.Err = err.Error()
			return
		}
		w.nodes[r.Name] = h
		return
	}
	h := w.nodes[r.Name]
	if h == nil {
		resp.Err = "no such node " + r.Name
		return
	}
	n := h.node
	switch r.Op {
	case "node-add", "node-add-one":
		var snaps []xp.Snap
		var err error
		// the HTTP server recovers panics of its handler goroutines; do the
		// same here and report them, so that a panic in the proposer path is
		// an observation rather than the end of the child
		defer func() {
			if p := recover(); p != nil {
				resp.Err, resp.ErrKind = fmt.Sprintf("panic: %v", p), "panic"
			}
		}()
		if r.Op == "node-add-one" {
			s, e := n.Add(r.Events[0])
			err = e
			if e == nil {
				snaps = []xp.Snap{{Version: s.Version, Event: s.EventDigest, History: s.HistoryDigest, Hyper: s.HyperDigest}}
			}
		} else {
			ss, e := n.AddBulk(r.Events)
			err = e
			for _, s := range ss {
				snaps = append(snaps, xp.Snap{Version: s.Version, Event: s.EventDigest, History: s.HistoryDigest, Hyper: s.HyperDigest})
			}
		}
		resp.Snaps, resp.Err, resp.ErrKind = snaps, errStr(err), classify(err)
	case "node-add-async":
		p := &pendingAdd{done: make(chan struct{})}
		h.mu.Lock()
		h.pending = p
		h.mu.Unlock()
		evs := r.Events
		go func() {
			defer close(p.done)
			defer func() {
				if pv := recover(); pv != nil {
					p.err = fmt.Errorf("panic: %v", pv)
				}
			}()
			ss, err := n.AddBulk(evs)
			p.err = err
			for _, s := range ss {
				p.snaps = append(p.snaps, xp.Snap{Version: s.Version, Event: s.EventDigest, History: s.HistoryDigest, Hyper: s.HyperDigest})
			}
		}()
	case "node-add-await":
		h.mu.Lock()
		p := h.pending
		h.mu.Unlock()
		if p == nil {
			resp.Err = "nothing pending"
			return
		}
		select {
		case <-p.done:
			resp.Done = true
			resp.Snaps, resp.Err, resp.ErrKind = p.snaps, errStr(p.err), classify(p.err)
		case <-time.After(time.Duration(r.N) * time.Millisecond):
		}
	case "node-gate-status":
		resp.Parked = atomic.LoadInt32(&h.fs.parked) == 1
	case "node-gate-release":
		if atomic.CompareAndSwapInt32(&h.fs.released, 0, 1) {
			close(h.fs.release)
		}
	case "node-query":
		resp.Answers = runQueries(n, r.Queries, time.Duration(r.N)*time.Millisecond)
	case "node-query-async":
		ch := make(chan []xp.Answer, 1)
		h.mu.Lock()
		h.pendingQ = ch
		h.mu.Unlock()
		qs, to := r.Queries, time.Duration(r.N)*time.Millisecond
		go func() { ch <- runQueries(n, qs, to) }()
	case "node-query-await":
		h.mu.Lock()
		ch := h.pendingQ
		h.mu.Unlock()
		if ch == nil {
			resp.Err = "no queries pending"
			return
		}
		resp.Answers = <-ch
	case "node-stream":
		// background stream of insertions with an append-only journal (survives SIGKILL:
		// the page cache does): "S <i>" before sending bulk i, "A <i> <firstVersion>" after its ack
		f, err := os.OpenFile(r.Path, os.O_CREATE|os.O_WRONLY|os.O_APPEND, 0o644)
		if err != nil {
			resp.Err = err.Error()
			return
		}
		bulks := r.Chunks // each chunk: newline-separated events of one call
		go func() {
			for i, c := range bulks {
				var evs [][]byte
				for _, e := range bytes.Split(c, []byte("\n")) {
					if len(e) > 0 {
						evs = append(evs, e)
					}
				}
				fmt.Fprintf(f, "S %d\n", i)
				ss, err := n.AddBulk(evs)
				if err != nil || len(ss) == 0 {
					fmt.Fprintf(f, "E %d %v\n", i, err)
					return
				}
				fmt.Fprintf(f, "A %d %d\n", i, ss[0].Version)
			}
			fmt.Fprintf(f, "DONE\n")
		}()
	case "node-handed":
		time.Sleep(30 * time.Millisecond)
		h.mu.Lock()
		resp.Snaps = append([]xp.Snap{}, h.handed...)
		h.mu.Unlock()
	case "node-add-concurrent":
		// r.A clients, each making r.B insertion calls one after the other; call i of client a
		// inserts Sizes[(a*B+i) % len] events (1 = RaftNode.Add, >1 = AddBulk); all clients run at once
		resp.Acks = concurrentAdds(n, int(r.A), int(r.B), r.Args, int(r.C))
	case "node-stress":
		resp.Emitted, resp.Bad = stress(n, r)
	case "node-state":
		st := &xp.State{}
		st.Index, st.StateVersion, st.BalloonVersion = n.VerifState()
		st.First, st.Last, st.Applied = n.VerifRaftIndexes()
		st.IsLeader = n.IsLeader()
		st.RaftState = n.VerifRaftState()
		if ci := n.ClusterInfo(); ci != nil {
			st.Leader = ci.LeaderId
		}
		st.Mutates = int(atomic.LoadInt32(&h.fs.mutates))
		resp.State = st
		resp.Emitted = int(atomic.LoadInt64(&h.emitted))
	case "node-dump":
		dump(h.fs.RocksDBStore, resp, r.Tables)
	case "node-mgmt":
		// the management API (api/mgmthttp) in front of this node, as server.Server mounts it
		if h.mgmt == nil {
			h.mgmt = httptest.NewServer(mgmthttp.NewMgmtHttp(n))
		}
		resp.URL = h.mgmt.URL
	case "node-backup":
		resp.Err = errStr(n.CreateBackup())
	case "node-backups":
		for _, b := range n.ListBackups() {
			resp.Backups = append(resp.Backups, xp.Backup{ID: b.ID, Metadata: b.Metadata})
		}
	case "node-backup-delete":
		resp.Err = errStr(n.DeleteBackup(uint32(r.N)))
	case "node-restore-latest":
		os.MkdirAll(r.Path, 0o755)
		resp.Err = errStr(h.fs.RocksDBStore.RestoreFromLatestBackup(r.Path, r.Path))
	case "node-restore":
		os.MkdirAll(r.Path, 0o755)
		resp.Err = errStr(h.fs.RocksDBStore.RestoreFromBackup(uint32(r.N), r.Path, r.Path))
	case "node-force-snapshot":
		resp.Err = errStr(n.VerifForceSnapshot())
	case "node-transfer":
		resp.Err = errStr(n.VerifTransferLeadership())
	case "node-fetch-snapshot":
		fs := &fakeStream{}
		err := n.FetchSnapshot(&consensus.FetchSnapshotRequest{LastAppliedVersion: r.A, StartSeqNum: r.B, EndSeqNum: r.C}, fs)
		resp.Err = errStr(err)
		resp.Chunks = fs.chunks
		resp.Emitted = int(h.fs.RocksDBStore.LastWALSequenceNumber())
	case "node-fetch-concurrent":
		// r.N followers fetch at once (a returning follower and a new node being restored at the
		// same time); each gets its own stream; resp.Chunks = first stream's chunks, resp.Args-like
		// digests of every stream go to resp.DumpHash
		k := int(r.N)
		streams := make([]*fakeStream, k)
		errs := make([]error, k)
		var wg sync.WaitGroup
		start := make(chan struct{})
		for i := 0; i < k; i++ {
			streams[i] = &fakeStream{}
			wg.Add(1)
			go func(i int) {
				defer wg.Done()
				<-start
				errs[i] = n.FetchSnapshot(&consensus.FetchSnapshotRequest{LastAppliedVersion: r.A, StartSeqNum: r.B, EndSeqNum: r.C}, streams[i])
			}(i)
		}
		close(start)
		wg.Wait()
		resp.DumpHash = map[string]string{}
		resp.DumpCount = map[string]int{}
		for i := 0; i < k; i++ {
			hs := sha256.New()
			for _, c := range streams[i].chunks {
				fmt.Fprintf(hs, "%d:", len(c))
				hs.Write(c)
			}
			key := fmt.Sprintf("stream-%d", i)
			resp.DumpHash[key] = hex.EncodeToString(hs.Sum(nil))
			resp.DumpCount[key] = len(streams[i].chunks)
			if errs[i] != nil {
				resp.DumpHash[key] = "error: " + errs[i].Error()
			}
		}
	case "node-close":
		bound := 30
		if r.N > 0 {
			bound = int(r.N)
		}
		done := make(chan error, 1)
		go func() { done <- n.Close(r.Wait) }()
		select {
		case err := <-done:
			resp.Err = errStr(err)
			delete(w.nodes, r.Name)
		case <-time.After(time.Duration(bound) * time.Second):
			resp.Err = fmt.Sprintf("close did not return within %d s", bound)
			resp.ErrKind = "hang"
		}
	default:
		resp.Err = "unknown op " + r.Op
	}
}

// querier is the read API a RaftNode and a bare Balloon share.
type querier interface {
	QueryDigestMembershipConsistency(keyDigest hashing.Digest, version uint64) (*balloon.MembershipProof, error)
	QueryMembershipConsistency(event []byte, version uint64) (*balloon.MembershipProof, error)
	QueryDigestMembership(keyDigest hashing.Digest) (*balloon.MembershipProof, error)
	QueryConsistency(start, end uint64) (*balloon.IncrementalProof, error)
}

func runQueries(n querier, qs []xp.Query, timeout time.Duration) []xp.Answer {
	if timeout == 0 {
		timeout = 10 * time.Second
	}
	out := make([]xp.Answer, len(qs))
	var wg sync.WaitGroup
	done := make([]chan struct{}, len(qs))
	for i := range qs {
		done[i] = make(chan struct{})
		wg.Add(1)
		go func(i int) {
			defer wg.Done()
			defer close(done[i])
			start := time.Now()
			a := &out[i]
			defer func() {
				a.Ms = time.Since(start).Milliseconds()
				if p := recover(); p != nil {
					a.Panic = fmt.Sprint(p)
				}
			}()
			q := qs[i]
			switch q.Kind {
			case "member":
				p, err := n.QueryDigestMembershipConsistency(q.Digest, q.Version)
				if err != nil {
					a.Err = err.Error()
					return
				}
				a.Result, _ = json.Marshal(protocol.ToMembershipResult(nil, p))
			case "member-latest":
				p, err := n.QueryDigestMembership(q.Digest)
				if err != nil {
					a.Err = err.Error()
					return
				}
				a.Result, _ = json.Marshal(protocol.ToMembershipResult(nil, p))
			case "member-event":
				p, err := n.QueryMembershipConsistency(q.Event, q.Version)
				if err != nil {
					a.Err = err.Error()
					return
				}
				a.Result, _ = json.Marshal(protocol.ToMembershipResult(q.Event, p))
			case "incr":
				p, err := n.QueryConsistency(q.Start, q.End)
				if err != nil {
					a.Err = err.Error()
					return
				}
				a.Result, _ = json.Marshal(protocol.ToIncrementalResponse(p))
			default:
				a.Err = "unknown query kind " + q.Kind
			}
		}(i)
	}
	deadline := time.After(timeout)
	for i := range qs {
		select {
		case <-done[i]:
		case <-deadline:
			// leave the goroutine behind; report the hang, with every stack
			buf := make([]byte, 4<<20)
			fmt.Fprintf(os.Stderr, "QUERY-TIMEOUT goroutine dump:\n%s\nEND-OF-DUMP\n", buf[:runtime.Stack(buf, true)])
			res := make([]xp.Answer, len(qs))
			for j := range qs {
				select {
				case <-done[j]:
					res[j] = out[j]
				default:
					res[j] = xp.Answer{Timeout: true}
				}
			}
			return res
		}
	}
	return out
}

// stress: concurrent adders and queriers on the public API (race tier of C10).
// r.A adders each doing r.B adds (bulk size r.C), r.N queriers running until
// the adders finish. Returns (#operations, #panics).
func concurrentAdds(n *consensus.RaftNode, clients, calls int, sizes []string, backups int) []xp.Ack {
	acks := make([]xp.Ack, clients*calls)
	var wg sync.WaitGroup
	start := make(chan struct{})
	var done int32
	if backups > 0 {
		// an operator takes backups through the management API while clients insert
		go func() {
			<-start
			for i := 0; i < backups && atomic.LoadInt32(&done) == 0; i++ {
				n.CreateBackup()
				time.Sleep(time.Millisecond)
			}
		}()
	}
	for a := 0; a < clients; a++ {
		wg.Add(1)
		go func(a int) {
			defer wg.Done()
			<-start
			for i := 0; i < calls; i++ {
				k := 1
				if len(sizes) > 0 {
					fmt.Sscanf(sizes[(a*calls+i)%len(sizes)], "%d", &k)
				}
				ack := xp.Ack{Client: a, Seq: i}
				for j := 0; j < k; j++ {
					ack.Events = append(ack.Events, []byte(fmt.Sprintf("cc-%d-%d-%d", a, i, j)))
				}
				func() {
					defer func() {
						if p := recover(); p != nil {
							ack.Err = fmt.Sprintf("panic: %v", p)
						}
					}()
					var snaps []*balloon.Snapshot
					var err error
					if k == 1 {
						var s1 *balloon.Snapshot
						s1, err = n.Add(ack.Events[0])
						if s1 != nil {
							snaps = []*balloon.Snapshot{s1}
						}
					} else {
						snaps, err = n.AddBulk(ack.Events)
					}
					if err != nil {
						ack.Err = err.Error()
						return
					}
					for _, s := range snaps {
						ack.Snaps = append(ack.Snaps, xp.Snap{Version: s.Version, Event: s.EventDigest, History: s.HistoryDigest, Hyper: s.HyperDigest})
					}
				}()
				acks[a*calls+i] = ack
			}
		}(a)
	}
	close(start)
	wg.Wait()
	atomic.StoreInt32(&done, 1)
	return acks
}

func stress(n *consensus.RaftNode, r *xp.Req) (ops, panics int) {
	var wg, qwg sync.WaitGroup
	var stop int32
	var nops, npanics int64
	var mu sync.Mutex
	var events [][]byte
	guard := func(f func()) {
		defer func() {
			if p := recover(); p != nil {
				atomic.AddInt64(&npanics, 1)
			}
		}()
		f()
		atomic.AddInt64(&nops, 1)
	}
	// Args[0] = "pad=N": events carry N extra bytes (hashing a big event keeps a query inside
	// the node's entry points for milliseconds instead of microseconds)
	pad := 0
	if len(r.Args) > 0 {
		fmt.Sscanf(r.Args[0], "pad=%d", &pad)
	}
	padding := bytes.Repeat([]byte{'x'}, pad)
	for a := 0; a < int(r.A); a++ {
		wg.Add(1)
		go func(a int) {
			defer wg.Done()
			for i := 0; i < int(r.B); i++ {
				var bulk [][]byte
				for j := 0; j < int(r.C); j++ {
					bulk = append(bulk, append([]byte(fmt.Sprintf("s-%d-%d-%d", a, i, j)), padding...))
				}
				guard(func() {
					if _, err := n.AddBulk(bulk); err == nil {
						mu.Lock()
						events = append(events, bulk...)
						mu.Unlock()
					}
				})
			}
		}(a)
	}
	for q := 0; q < int(r.N); q++ {
		qwg.Add(1)
		go func(q int) {
			defer qwg.Done()
			for i := 0; atomic.LoadInt32(&stop) == 0; i++ {
				mu.Lock()
				var ev []byte
				k := len(events)
				if k > 0 {
					ev = events[(i*7+q)%k]
				}
				mu.Unlock()
				if ev == nil {
					time.Sleep(time.Millisecond)
					continue
				}
				guard(func() {
					// like the API handlers: the answer is serialised after the query returned
					switch i % 3 {
					case 0:
						if p, err := n.QueryMembership(ev); err == nil {
							json.Marshal(protocol.ToMembershipResult(ev, p))
						}
					case 1:
						if p, err := n.QueryMembershipConsistency(ev, uint64(k/2)); err == nil {
							json.Marshal(protocol.ToMembershipResult(ev, p))
						}
					default:
						if k > 2 {
							if p, err := n.QueryConsistency(uint64(i%(k/2)), uint64(k/2)); err == nil {
								json.Marshal(protocol.ToIncrementalResponse(p))
							}
						}
					}
				})
			}
		}(q)
	}
	wg.Wait()
	atomic.StoreInt32(&stop, 1)
	qwg.Wait()
	return int(nops), int(npanics)
}

// chunkStream feeds LoadSnapshot chunk by chunk and can break with an error
// at a chunk boundary.
type chunkStream struct {
	chunks [][]byte
	failAt int // 1-based: fail instead of delivering this chunk (0 = never)
	i      int
	cur    []byte
}

func (c *chunkStream) Read(p []byte) (int, error) {
	if len(c.cur) == 0 {
		if c.failAt > 0 && c.i+1 >= c.failAt {
			return 0, fmt.Errorf("rpc error: code = Unknown desc = Gap found between versions")
		}
		if c.i >= len(c.chunks) {
			return 0, io.EOF
		}
		c.cur = c.chunks[c.i]
		c.i++
	}
	n := copy(p, c.cur)
	c.cur = c.cur[n:]
	return n, nil
}

func (c *chunkStream) Close() error { return nil }
