package main

import (
	"context"

	"github.com/bbva/qed/consensus"
	"google.golang.org/grpc/metadata"

	"verif/xp"
)

// fakeStream is a ClusterService_FetchSnapshotServer that records chunks.
type fakeStream struct {
	chunks [][]byte
}

func (f *fakeStream) Send(c *consensus.Chunk) error {
	f.chunks = append(f.chunks, append([]byte{}, c.Content...))
	return nil
}
func (f *fakeStream) SetHeader(metadata.MD) error  { return nil }
func (f *fakeStream) SendHeader(metadata.MD) error { return nil }
func (f *fakeStream) SetTrailer(metadata.MD)       {}
func (f *fakeStream) Context() context.Context     { return context.Background() }
func (f *fakeStream) SendMsg(interface{}) error    { return nil }
func (f *fakeStream) RecvMsg(interface{}) error    { return nil }

var _ = xp.Req{}
