package main

import "verif/xp"

type srvH struct{}

func (w *world) srvOp(r *xp.Req, resp *xp.Resp) { resp.Err = "server ops not built yet" }
