package main

import (
	"fmt"
	"os"
	"path/filepath"
	"time"

	"github.com/bbva/qed/crypto"
	"github.com/bbva/qed/server"

	"verif/xp"
)

type srvH struct {
	srv *server.Server
}

// srvOp: srv-open starts a complete server.Server (API, mgmt, metrics, gossip
// agent, sender, Raft) on the addresses given in r.Node.Seeds =
// [http, mgmt, metrics, gossip] and r.Node.Addr (raft); srv-close stops it.
func (w *world) srvOp(r *xp.Req, resp *xp.Resp) {
	switch r.Op {
	case "srv-open":
		o := r.Node
		os.MkdirAll(o.Dir, 0o755)
		keyPath := filepath.Join(o.Dir, "keys")
		priv := filepath.Join(keyPath, "qed_ed25519")
		if _, err := os.Stat(priv); err != nil {
			os.MkdirAll(keyPath, 0o755)
			if _, _, err := crypto.NewEd25519SignerKeysFile(keyPath); err != nil {
				resp.Err = "keys: " + err.Error()
				return
			}
		}
		conf := server.DefaultConfig()
		conf.NodeID = o.ID
		conf.HTTPAddr, conf.MgmtAddr, conf.MetricsAddr, conf.GossipAddr = o.Seeds[0], o.Seeds[1], o.Seeds[2], o.Seeds[3]
		conf.RaftAddr = o.Addr
		conf.DBPath = filepath.Join(o.Dir, "db")
		conf.RaftPath = filepath.Join(o.Dir, "raft")
		conf.PrivateKeyPath = priv
		to := time.Duration(o.TimeoutMs) * time.Millisecond
		conf.RaftHeartbeatTimeout, conf.RaftElectionTimeout, conf.RaftLeaseTimeout = to, to, to
		s, err := server.NewServer(conf)
		if err != nil {
			resp.Err = "new server: " + err.Error()
			return
		}
		if err := s.Start(); err != nil {
			resp.Err = "start: " + err.Error()
			return
		}
		w.srvs[r.Name] = &srvH{s}
	case "srv-close":
		h := w.srvs[r.Name]
		if h == nil {
			resp.Err = "no such server"
			return
		}
		done := make(chan error, 1)
		go func() { done <- h.srv.Stop() }()
		select {
		case err := <-done:
			resp.Err = errStr(err)
			delete(w.srvs, r.Name)
		case <-time.After(30 * time.Second):
			resp.Err = "Stop did not return within 30 s"
			resp.ErrKind = "hang"
		}
	default:
		resp.Err = fmt.Sprintf("unknown op %s", r.Op)
	}
}
