// evmerge merges the per-shard evidence parts written by pbt.Rec.Flush into
// one /verif/evidence/<id>.json (EVIDENCE.schema.json). Distinct non-trivial
// cases are the union of the shards' 64-bit case hashes.
package main

import (
	"encoding/binary"
	"encoding/json"
	"flag"
	"fmt"
	"os"
	"path/filepath"
	"sort"
)

type part struct {
	ID          string           `json:"id"`
	Unit        string           `json:"unit"`
	Shard       int              `json:"shard"`
	Rule        string           `json:"rule"`
	Assumptions []string         `json:"assumptions"`
	Evals       int64            `json:"evaluations"`
	HashFile    string           `json:"hash_file"`
	Classes     map[string]int64 `json:"classes"`
	Counters    map[string]int64 `json:"counters"`
	Samples     []interface{}    `json:"samples"`
	Exhaustive  *bool            `json:"exhaustive,omitempty"`
	Violations  int              `json:"violations"`
}

type unitSummary struct {
	Evaluations        int64            `json:"evaluations"`
	DistinctNontrivial int              `json:"distinct_nontrivial"`
	Rule               string           `json:"rule"`
	Classes            map[string]int64 `json:"classes,omitempty"`
	Counters           map[string]int64 `json:"counters,omitempty"`
	Shards             int              `json:"shards"`
	Exhaustive         *bool            `json:"exhaustive,omitempty"`
}

func main() {
	dir := flag.String("parts", "", "directory with *.part.json")
	out := flag.String("out", "", "evidence file to write")
	meta := flag.String("meta", "", "JSON object from the driver: property_id,tier,seed,level,wall_s,violations,extra")
	flag.Parse()
	var m map[string]interface{}
	if err := json.Unmarshal([]byte(*meta), &m); err != nil {
		fmt.Fprintln(os.Stderr, "evmerge: bad meta:", err)
		os.Exit(2)
	}
	files, _ := filepath.Glob(filepath.Join(*dir, "*.part.json"))
	sort.Strings(files)
	units := map[string]*unitSummary{}
	unitHashes := map[string][]uint64{}
	var order []string
	samples := []interface{}{}
	assume := map[string]bool{}
	assumptions := []string{}
	var total int64
	for _, f := range files {
		b, err := os.ReadFile(f)
		if err != nil {
			continue
		}
		var p part
		if json.Unmarshal(b, &p) != nil {
			continue
		}
		u := units[p.Unit]
		if u == nil {
			u = &unitSummary{Rule: p.Rule, Classes: map[string]int64{}, Counters: map[string]int64{}}
			units[p.Unit] = u
			order = append(order, p.Unit)
		}
		u.Shards++
		u.Evaluations += p.Evals
		total += p.Evals
		for k, v := range p.Classes {
			u.Classes[k] += v
		}
		for k, v := range p.Counters {
			u.Counters[k] += v
		}
		if p.Exhaustive != nil && (u.Exhaustive == nil || !*p.Exhaustive) {
			u.Exhaustive = p.Exhaustive
		}
		for _, a := range p.Assumptions {
			if !assume[a] {
				assume[a] = true
				assumptions = append(assumptions, a)
			}
		}
		if p.Shard == 0 || len(samples) < 2 {
			for i, s := range p.Samples {
				if len(samples) < 12 && (p.Shard == 0 || i == 0) {
					samples = append(samples, map[string]interface{}{"unit": p.Unit, "shard": p.Shard, "case": s})
				}
			}
		}
		if hb, err := os.ReadFile(p.HashFile); err == nil {
			hs := unitHashes[p.Unit]
			for i := 0; i+8 <= len(hb); i += 8 {
				hs = append(hs, binary.LittleEndian.Uint64(hb[i:]))
			}
			unitHashes[p.Unit] = hs
		}
	}
	distinct := 0
	rule := ""
	allExh := true
	anyExh := false
	for _, name := range order {
		hs := unitHashes[name]
		sort.Slice(hs, func(i, j int) bool { return hs[i] < hs[j] })
		n := 0
		for i := range hs {
			if i == 0 || hs[i] != hs[i-1] {
				n++
			}
		}
		units[name].DistinctNontrivial = n
		distinct += n // units explore different case spaces: sum of per-unit unions
		rule += fmt.Sprintf("[%s] %s  ", name, units[name].Rule)
		if units[name].Exhaustive != nil {
			anyExh = true
			if !*units[name].Exhaustive {
				allExh = false
			}
		} else {
			allExh = false
		}
	}
	cov := map[string]interface{}{
		"evaluations":         total,
		"distinct_nontrivial": distinct,
		"rule":                rule,
		"samples":             samples,
		"units":               units,
	}
	if anyExh {
		cov["exhaustive"] = allExh
	}
	if ex, ok := m["extra"].(map[string]interface{}); ok {
		for k, v := range ex {
			cov[k] = v
		}
	}
	ev := map[string]interface{}{
		"property_id": m["property_id"],
		"tier":        m["tier"],
		"seed":        m["seed"],
		"level":       m["level"],
		"coverage":    cov,
		"assumptions": assumptions,
		"wall_s":      m["wall_s"],
		"violations":  m["violations"],
	}
	b, _ := json.MarshalIndent(ev, "", " ")
	if err := os.WriteFile(*out, b, 0o644); err != nil {
		fmt.Fprintln(os.Stderr, "evmerge:", err)
		os.Exit(2)
	}
}
