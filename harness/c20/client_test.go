package c20

import (
	"encoding/json"
	"fmt"
	"net/http"
	"net/http/httptest"
	"os"
	"strings"
	"sync"
	"testing"
	"time"

	"github.com/bbva/qed/api/apihttp"
	"github.com/bbva/qed/balloon"
	"github.com/bbva/qed/client"
	"github.com/bbva/qed/consensus"
	"github.com/bbva/qed/crypto/hashing"
	"github.com/bbva/qed/log"
	"github.com/hashicorp/raft"
	"pgregory.net/rapid"

	"verif/pbt"
	"verif/rig"
)

// Act is one step of the black-box tier.
type Act struct {
	Op     string `json:"op"` // add | bulk | member | incr | ping | leader | mode
	Server int    `json:"server"`
	Mode   string `json:"mode"` // ok | 503 | 400 | drop
}

type CH struct {
	Servers   int   `json:"servers"`
	Pref      int   `json:"pref"`
	Retries   int   `json:"retries"`
	Discovery bool  `json:"discovery"`
	Health    bool  `json:"health"`
	Acts      []Act `json:"acts"`
}

const ruleClient = "tier 2 (black box): the real client.HTTPClient with drawn options (read preference, 0-1 retries, discovery on/off, health checks on/off) against 2-4 httptest servers running the REAL api/apihttp handlers over a scripted cluster state (who leads; per server: ok / answers 503 / answers 400 / drops the connection); rapid draws sequences of Add, AddBulk, MembershipDigest, Incremental, Ping and state changes (leader moves, server modes). Oracle: every insertion request observed at a server was sent to a node the client believed leader before or after that call; an insertion reported successful was executed by the real leader exactly once; a read is only sent to nodes permitted by the preference (by the client's own role view) and never to a node it holds dead at that moment without having re-checked it; in any period in which every server answers and nothing changes the third consecutive insertion attempt at the latest must succeed (through discovery, or through the redirect of the believed leader); every call returns within 15 s and causes at most (retries+1)*(servers+1)+3*servers+4 requests. Non-trivial: a leader change or a failing server precedes a successful call. distinct = FNV-64 of the case."

type cluster struct {
	mu     sync.Mutex
	leader int
	mode   []string
	urls   []string
	log    []hit
	adds   map[int]int // insertions executed per server
}

type hit struct {
	server int
	method string
	path   string
}

type fakeAPI struct {
	c  *cluster
	id int
}

func (f *fakeAPI) lead() bool { f.c.mu.Lock(); defer f.c.mu.Unlock(); return f.c.leader == f.id }

func (f *fakeAPI) Add(event []byte) (*balloon.Snapshot, error) {
	if !f.lead() {
		return nil, raft.ErrNotLeader
	}
	f.c.mu.Lock()
	f.c.adds[f.id]++
	f.c.mu.Unlock()
	return &balloon.Snapshot{EventDigest: []byte{1}, HistoryDigest: []byte{2}, HyperDigest: []byte{3}, Version: 7}, nil
}
func (f *fakeAPI) AddBulk(bulk [][]byte) ([]*balloon.Snapshot, error) {
	s, err := f.Add(nil)
	if err != nil {
		return nil, err
	}
	return []*balloon.Snapshot{s}, nil
}
func (f *fakeAPI) proof() *balloon.MembershipProof {
	p, _ := fixture().Bal.QueryDigestMembership(rig.Dg(fixtureDigest))
	return p
}
func (f *fakeAPI) QueryDigestMembershipConsistency(d hashing.Digest, v uint64) (*balloon.MembershipProof, error) {
	return f.proof(), nil
}
func (f *fakeAPI) QueryMembershipConsistency(e []byte, v uint64) (*balloon.MembershipProof, error) {
	return f.proof(), nil
}
func (f *fakeAPI) QueryDigestMembership(d hashing.Digest) (*balloon.MembershipProof, error) {
	return f.proof(), nil
}
func (f *fakeAPI) QueryMembership(e []byte) (*balloon.MembershipProof, error) { return f.proof(), nil }
func (f *fakeAPI) QueryConsistency(s, e uint64) (*balloon.IncrementalProof, error) {
	return fixture().Bal.QueryConsistency(0, 1)
}
func (f *fakeAPI) ClusterInfo() *consensus.ClusterInfo {
	f.c.mu.Lock()
	defer f.c.mu.Unlock()
	ci := &consensus.ClusterInfo{LeaderId: fmt.Sprintf("n%d", f.c.leader), Nodes: map[string]*consensus.NodeInfo{}}
	for i, u := range f.c.urls {
		ci.Nodes[fmt.Sprintf("n%d", i)] = &consensus.NodeInfo{NodeId: fmt.Sprintf("n%d", i), HttpAddr: strings.TrimPrefix(u, "http://")}
	}
	return ci
}
func (f *fakeAPI) Info() *consensus.NodeInfo {
	return &consensus.NodeInfo{NodeId: fmt.Sprintf("n%d", f.id), HttpAddr: strings.TrimPrefix(f.c.urls[f.id], "http://")}
}
func (f *fakeAPI) IsLeader() bool { return f.lead() }

var (
	fixOnce       sync.Once
	fixB          *rig.B
	fixtureDigest = [32]byte{9, 9}
)

func fixture() *rig.B {
	fixOnce.Do(func() {
		b, err := rig.NewBPlus()
		if err != nil {
			panic(err)
		}
		b.Apply(false, [][32]byte{fixtureDigest})
		b.Apply(false, [][32]byte{{1}})
		fixB = b
	})
	return fixB
}

func TestClient(t *testing.T) {
	log.SetDefault(log.New(&log.LoggerOptions{Level: log.Off}))
	fixture()
	rec := pbt.NewRec("C20", "TestClient", ruleClient, "servers speak well-formed HTTP; 'drop' closes the TCP connection without answering")
	pbt.Run(t, rec, func(rt *rapid.T) CH {
		h := CH{Servers: rapid.IntRange(2, 4).Draw(rt, "servers"), Pref: rapid.IntRange(0, 4).Draw(rt, "pref"),
			Retries: rapid.SampledFrom([]int{0, 0, 0, 0, 0, 0, 1}).Draw(rt, "retries"), Discovery: rapid.Bool().Draw(rt, "discovery"), Health: rapid.IntRange(0, 3).Draw(rt, "health") == 0}
		for i, n := 0, rapid.IntRange(4, 12).Draw(rt, "nacts"); i < n; i++ {
			a := Act{Op: rapid.SampledFrom([]string{"add", "add", "add", "add", "add", "bulk", "member", "incr", "ping", "leader", "mode", "mode", "outage", "failover"}).Draw(rt, "op")}
			a.Server = rapid.IntRange(0, h.Servers-1).Draw(rt, "server")
			if a.Op == "mode" {
				a.Mode = rapid.SampledFrom([]string{"ok", "ok", "503", "400", "drop"}).Draw(rt, "mode")
			}
			switch a.Op {
			case "outage":
				// a node fails for one call and comes back: then the cluster is healthy for a while
				bad := rapid.SampledFrom([]string{"503", "drop", "400"}).Draw(rt, "outage-mode")
				first := rapid.SampledFrom([]string{"add", "member", "ping"}).Draw(rt, "outage-call")
				h.Acts = append(h.Acts, Act{Op: "mode", Server: a.Server, Mode: bad}, Act{Op: first}, Act{Op: "mode", Server: a.Server, Mode: "ok"},
					Act{Op: "add"}, Act{Op: "add"}, Act{Op: "add"})
				continue
			case "failover":
				// the leader moves while everybody answers
				h.Acts = append(h.Acts, Act{Op: "leader", Server: a.Server}, Act{Op: "add"}, Act{Op: "add"}, Act{Op: "add"})
				continue
			}
			h.Acts = append(h.Acts, a)
		}
		return h
	}, execClient)
}

func execClient(h CH, rec *pbt.Rec) error {
	c := &cluster{mode: make([]string, h.Servers), urls: make([]string, h.Servers), adds: map[int]int{}}
	var srvs []*httptest.Server
	for i := 0; i < h.Servers; i++ {
		i := i
		c.mode[i] = "ok"
		mux := apihttp.NewApiHttp(&fakeAPI{c, i})
		s := httptest.NewServer(http.HandlerFunc(func(w http.ResponseWriter, r *http.Request) {
			c.mu.Lock()
			c.log = append(c.log, hit{i, r.Method, r.URL.Path})
			mode := c.mode[i]
			c.mu.Unlock()
			switch mode {
			case "drop":
				if hj, ok := w.(http.Hijacker); ok {
					conn, _, _ := hj.Hijack()
					conn.Close()
				}
				return
			case "503":
				http.Error(w, "unavailable", 503)
				return
			case "400":
				http.Error(w, "bad", 400)
				return
			}
			mux.ServeHTTP(w, r)
		}))
		srvs = append(srvs, s)
		c.urls[i] = s.URL
	}
	defer func() {
		for _, s := range srvs {
			s.Close()
		}
	}()
	var second []string
	for i := 1; i < h.Servers; i++ {
		second = append(second, c.urls[i])
	}
	cl, err := client.NewHTTPClient(
		client.SetHttpClient(&http.Client{Timeout: 5 * time.Second}),
		client.SetURLs(c.urls[0], second...),
		client.SetReadPreference(prefs[h.Pref]),
		client.SetMaxRetries(h.Retries),
		client.SetTopologyDiscovery(h.Discovery),
		client.SetHealthChecks(h.Health),
		client.SetHealthCheckInterval(time.Hour),
		client.SetAttemptToReviveEndpoints(true),
		client.SetHasherFunction(hashing.NewSha256Hasher),
	)
	if err != nil {
		return &pbt.Unsettled{Why: "client: " + err.Error()}
	}
	stuck := false
	defer func() {
		if !stuck { // a call that never returned still uses the client: leave it alone
			cl.Close()
		}
	}()
	top := cl.VerifTopology()
	believed := func() string {
		e, _ := top.Primary()
		if e == nil {
			return ""
		}
		return e.URL()
	}
	idx := func(u string) int {
		for i, x := range c.urls {
			if x == u {
				return i
			}
		}
		return -1
	}
	nt, fault := false, false
	sinceMove := -1   // insertions attempted since the leader last moved (-1: never moved)
	stableWrites := 0 // consecutive insertion attempts since the cluster state last changed, all servers answering
	for ai, a := range h.Acts {
		switch a.Op {
		case "leader":
			c.mu.Lock()
			if c.leader != a.Server {
				c.leader = a.Server
				sinceMove = 0
				fault = true
				stableWrites = 0
			}
			c.mu.Unlock()
			continue
		case "mode":
			c.mu.Lock()
			if c.mode[a.Server] != a.Mode {
				stableWrites = 0
			}
			c.mode[a.Server] = a.Mode
			if a.Mode != "ok" {
				fault = true
			}
			c.mu.Unlock()
			continue
		}
		c.mu.Lock()
		c.log = nil
		leader := c.leader
		addsBefore := c.adds[leader]
		allOK := true
		for _, m := range c.mode {
			if m != "ok" {
				allOK = false
			}
		}
		leaderOK := c.mode[leader] == "ok"
		c.mu.Unlock()
		before := believed()
		_, perr := top.Primary()
		primaryHeldDead := perr == client.ErrPrimaryDead
		// the client's own view of roles and deadness just before a read
		type view struct {
			dead    bool
			primary bool
		}
		views := map[int]view{}
		for _, e := range top.Endpoints() {
			views[idx(e.URL())] = view{e.IsDead(), e.IsPrimary()}
		}
		start := time.Now()
		var callErr error
		done := make(chan struct{})
		go func() {
			defer close(done)
			switch a.Op {
			case "add":
				_, callErr = cl.Add("event")
			case "bulk":
				_, callErr = cl.AddBulk([]string{"a", "b"})
			case "member":
				v := uint64(1)
				_, callErr = cl.MembershipDigest(rig.Dg(fixtureDigest), &v)
			case "incr":
				_, callErr = cl.Incremental(0, 1)
			case "ping":
				callErr = cl.Ping()
			}
		}()
		select {
		case <-done:
		case <-time.After(30 * time.Second):
			c.mu.Lock()
			nreq := len(c.log)
			c.mu.Unlock()
			stuck = true
			return fmt.Errorf("act %d %s (leader is server %d, modes %v, discovery=%v health=%v retries=%d pref=%s): the call has not returned after 30 s and %d requests: it does not terminate within the configured number of attempts", ai, a.Op, leader, c.mode, h.Discovery, h.Health, h.Retries, prefNames[h.Pref], nreq)
		}
		took := time.Since(start)
		after := believed()
		if os.Getenv("VERIF_C20_TRACE") != "" {
			c.mu.Lock()
			fmt.Fprintf(os.Stderr, "act %d %s: leader=%d modes=%v believed %d -> %d (held dead before: %v) err=%v requests=%+v\n", ai, a.Op, leader, c.mode, idx(before), idx(after), primaryHeldDead, callErr, c.log)
			c.mu.Unlock()
		}
		viewsAfter := map[int]view{}
		for _, e := range top.Endpoints() {
			viewsAfter[idx(e.URL())] = view{e.IsDead(), e.IsPrimary()}
		}
		if e, _ := top.Primary(); e != nil {
			if _, listed := viewsAfter[idx(e.URL())]; !listed {
				viewsAfter[idx(e.URL())] = view{e.IsDead(), true}
			}
		}
		c.mu.Lock()
		hits := append([]hit{}, c.log...)
		addsAfter := c.adds[leader]
		c.mu.Unlock()
		tag := fmt.Sprintf("act %d %s (leader is server %d, modes %v, client believed %s before and %s after, discovery=%v retries=%d pref=%s)", ai, a.Op, leader, c.mode, short(before, c), short(after, c), h.Discovery, h.Retries, prefNames[h.Pref])
		if took > 15*time.Second {
			return fmt.Errorf("%s: the call took %v", tag, took)
		}
		if bound := (h.Retries+1)*(h.Servers+1) + 3*h.Servers + 4; len(hits) > bound {
			return fmt.Errorf("%s: the call caused %d requests, more than the bound %d", tag, len(hits), bound)
		}
		isWrite := a.Op == "add" || a.Op == "bulk"
		for _, ht := range hits {
			if ht.method == "POST" && strings.HasPrefix(ht.path, "/events") {
				if c.urls[ht.server] != before && c.urls[ht.server] != after {
					return fmt.Errorf("%s: an insertion was sent to server %d, which the client did not believe to be the leader", tag, ht.server)
				}
			}
			if ht.method == "POST" && strings.HasPrefix(ht.path, "/proofs") {
				v, known := views[ht.server]
				v2, known2 := viewsAfter[ht.server]
				if known && known2 {
					// the call may have re-discovered the cluster: permitted under the role
					// view held before or after the call
					permitted := true
					switch prefNames[h.Pref] {
					case "Primary":
						permitted = v.primary || v2.primary
					case "Secondary":
						permitted = !v.primary || !v2.primary
					}
					if !permitted {
						return fmt.Errorf("%s: a read was sent to server %d, which read preference %s excludes (the client listed it as primary=%v)", tag, ht.server, prefNames[h.Pref], v.primary)
					}
				}
			}
		}
		if isWrite {
			if callErr == nil && addsAfter != addsBefore+1 {
				return fmt.Errorf("%s: the insertion was reported successful but the leader executed %d insertions", tag, addsAfter-addsBefore)
			}
			if sinceMove >= 0 {
				sinceMove++
			}
			if callErr == nil {
				sinceMove = -1
			}
			// Convergence: while every server answers and nothing changes, the client must
			// find the leader by its third insertion attempt, through discovery when it is
			// enabled, or through the redirect of the node it believes to be the leader
			// (which answers, unless the client holds it dead and has nothing to re-check it with).
			// An attempt made while the client holds its primary dead and has neither
			// discovery nor health checks to re-check it sends nothing and learns nothing:
			// it does not count (a later read may revive the endpoints, and only then does
			// the client get its first redirect).
			if allOK && (h.Discovery || !primaryHeldDead) {
				stableWrites++
			} else {
				stableWrites = 0
			}
			if callErr != nil && allOK && stableWrites >= 3 && (h.Discovery || !primaryHeldDead) {
				c.mu.Lock()
				tail := c.log
				if len(tail) > 8 {
					tail = tail[len(tail)-8:]
				}
				hits := fmt.Sprintf("%+v", tail)
				c.mu.Unlock()
				return fmt.Errorf("%s: every server has been answering for %d consecutive insertion attempts and nothing changed meanwhile, yet the client still does not reach the leader: %v (last requests seen by the servers: %s)", tag, stableWrites, callErr, hits)
			}
		}
		if callErr == nil && fault && leaderOK {
			nt = true
		}
		rec.Class("call:"+a.Op, 1)
		if callErr != nil {
			rec.Class("call-failed", 1)
		}
	}
	rec.Case(h, nt)
	rec.Sample(len(h.Acts), h)
	_ = json.Marshal
	return nil
}

func short(u string, c *cluster) string {
	for i, x := range c.urls {
		if x == u {
			return fmt.Sprintf("server %d", i)
		}
	}
	if u == "" {
		return "nobody"
	}
	return u
}
