// C20 — client sends writes to the leader only and reads to a live,
// permitted node.
package c20

import (
	"fmt"
	"testing"

	"github.com/bbva/qed/client"
	"pgregory.net/rapid"

	"verif/pbt"
)

type Op struct {
	Op      string `json:"op"` // update | dead | alive | healthy | read | primary
	Primary int    `json:"primary"`
	Second  []int  `json:"secondaries"`
	Target  int    `json:"target"`
	Pref    int    `json:"pref"`
	Times   int    `json:"times"`
}

type H struct {
	Revive bool `json:"revive"`
	Ops    []Op `json:"ops"`
}

var prefs = []client.ReadPref{client.Primary, client.PrimaryPreferred, client.Secondary, client.SecondaryPreferred, client.Any}
var prefNames = []string{"Primary", "PrimaryPreferred", "Secondary", "SecondaryPreferred", "Any"}

const ruleTop = "tier 1 (hook): rapid state-machine sequences on the client's topology: Update(primary, secondaries...) over 6 urls (promotions, demotions, removals, re-additions), MarkAsDead / MarkAsAlive / MarkAsHealthy on chosen endpoints, NextReadEndpoint(pref) for all five preferences issued in runs, Primary(). Roles are the MODEL's (from the last Update); deadness is read from the endpoint. Oracle: a returned read endpoint is alive and permitted by the preference; if an alive permitted endpoint exists the call does not fail; over a run of m consecutive reads with m alive permitted candidates and no change in between, each candidate is chosen exactly once (fair cycling); Primary() returns the url of the last Update's primary. Non-trivial: >=1 endpoint dead and >=1 role-changing Update before a checked selection. distinct = FNV-64 of the sequence."

func url(i int) string { return fmt.Sprintf("http://node%d:8800", i) }

func TestTopology(t *testing.T) {
	rec := pbt.NewRec("C20", "TestTopology", ruleTop, "secondaries passed to Update are distinct, non-empty and do not repeat the primary (as discovery and redirects produce them)")
	pbt.Run(t, rec, func(rt *rapid.T) H {
		h := H{Revive: rapid.Bool().Draw(rt, "revive")}
		for i, n := 0, rapid.IntRange(2, 40).Draw(rt, "nops"); i < n; i++ {
			op := Op{Op: rapid.SampledFrom([]string{"update", "dead", "dead", "alive", "healthy", "read", "read", "read", "primary"}).Draw(rt, "op")}
			switch op.Op {
			case "update":
				op.Primary = rapid.IntRange(0, 5).Draw(rt, "primary")
				perm := rapid.Permutation([]int{0, 1, 2, 3, 4, 5}).Draw(rt, "perm")
				k := rapid.IntRange(0, 4).Draw(rt, "nsec")
				for _, x := range perm {
					if x != op.Primary && len(op.Second) < k {
						op.Second = append(op.Second, x)
					}
				}
			case "dead", "alive", "healthy":
				op.Target = rapid.IntRange(0, 5).Draw(rt, "target")
			case "read":
				op.Pref = rapid.IntRange(0, 4).Draw(rt, "pref")
				op.Times = rapid.IntRange(1, 7).Draw(rt, "times")
			}
			h.Ops = append(h.Ops, op)
		}
		return h
	}, execTop)
}

func execTop(h H, rec *pbt.Rec) error {
	top := client.VerifNewTopology(h.Revive)
	primary := -1
	var seconds []int
	role := map[int]string{}
	updates, roleChanges := 0, 0
	nt := false
	find := func(u string) interface {
		IsDead() bool
		MarkAsDead()
		MarkAsAlive()
		MarkAsHealthy()
		URL() string
	} {
		for _, e := range top.Endpoints() {
			if e.URL() == u {
				return e
			}
		}
		return nil
	}
	idx := func(u string) int {
		for i := 0; i < 6; i++ {
			if url(i) == u {
				return i
			}
		}
		return -1
	}
	for oi, op := range h.Ops {
		switch op.Op {
		case "update":
			var ss []string
			for _, s := range op.Second {
				ss = append(ss, url(s))
			}
			top.Update(url(op.Primary), ss...)
			newRole := map[int]string{op.Primary: "primary"}
			for _, s := range op.Second {
				newRole[s] = "secondary"
			}
			if updates > 0 {
				for k, v := range newRole {
					if role[k] != "" && role[k] != v {
						roleChanges++
					}
				}
			}
			updates++
			role, primary, seconds = newRole, op.Primary, append([]int{}, op.Second...)
		case "dead", "alive", "healthy":
			e := find(url(op.Target))
			if e == nil {
				continue
			}
			switch op.Op {
			case "dead":
				e.MarkAsDead()
			case "alive":
				e.MarkAsAlive()
			default:
				e.MarkAsHealthy()
			}
		case "primary":
			e, err := top.Primary()
			if primary < 0 {
				if err != client.ErrNoPrimary {
					return fmt.Errorf("op %d: Primary() on a topology that never had one: %v", oi, err)
				}
				continue
			}
			if e == nil || e.URL() != url(primary) {
				return fmt.Errorf("op %d: Primary() does not return the node the last Update named leader (%s)", oi, url(primary))
			}
			if (err == client.ErrPrimaryDead) != e.IsDead() {
				return fmt.Errorf("op %d: Primary() error %v, endpoint dead=%v", oi, err, e.IsDead())
			}
		case "read":
			if primary < 0 {
				continue
			}
			// candidates by preference, from the model's roles and the endpoints' dead flags
			alive := func(i int) bool { e := find(url(i)); return e != nil && !e.IsDead() }
			var aliveSec []int
			for _, s := range seconds {
				if alive(s) {
					aliveSec = append(aliveSec, s)
				}
			}
			pAlive := alive(primary)
			var cand []int
			switch prefNames[op.Pref] {
			case "Primary":
				if pAlive {
					cand = []int{primary}
				}
			case "PrimaryPreferred":
				if pAlive {
					cand = []int{primary}
				} else {
					cand = aliveSec
				}
			case "Secondary":
				cand = aliveSec
			case "SecondaryPreferred":
				if len(aliveSec) > 0 {
					cand = aliveSec
				} else if pAlive {
					cand = []int{primary}
				}
			case "Any":
				cand = append([]int{}, aliveSec...)
				if pAlive {
					cand = append(cand, primary)
				}
			}
			anyDead := false
			for i := 0; i < 6; i++ {
				if e := find(url(i)); e != nil && e.IsDead() {
					anyDead = true
				}
			}
			times := op.Times
			if len(cand) > 0 {
				times = len(cand) // one full cycle
			}
			chosen := map[int]int{}
			for k := 0; k < times; k++ {
				e, err := top.NextReadEndpoint(prefs[op.Pref])
				tag := fmt.Sprintf("op %d: read %d/%d with preference %s (leader %s, secondaries %v, alive secondaries %v, leader alive %v)", oi, k+1, times, prefNames[op.Pref], url(primary), seconds, aliveSec, pAlive)
				if len(cand) == 0 {
					if err == nil {
						if e.IsDead() {
							return fmt.Errorf("%s: selected %s, which is marked dead", tag, e.URL())
						}
						return fmt.Errorf("%s: selected %s, which the preference excludes", tag, e.URL())
					}
					if h.Revive {
						// attemptToRevive marks everything alive after a failed selection: state changed
						break
					}
					continue
				}
				if err != nil {
					return fmt.Errorf("%s: returned %v although %d live permitted endpoints exist", tag, err, len(cand))
				}
				if e.IsDead() {
					return fmt.Errorf("%s: selected %s, which is marked dead", tag, e.URL())
				}
				ci := idx(e.URL())
				ok := false
				for _, c := range cand {
					if c == ci {
						ok = true
					}
				}
				if !ok {
					return fmt.Errorf("%s: selected %s (%s in the last Update), which the preference excludes", tag, e.URL(), role[ci])
				}
				chosen[ci]++
			}
			if len(cand) > 0 {
				for _, c := range cand {
					if chosen[c] != 1 {
						return fmt.Errorf("op %d: %d consecutive reads with preference %s over %d live permitted endpoints %v chose %v: not every endpoint once (leader %s)", oi, times, prefNames[op.Pref], len(cand), cand, chosen, url(primary))
					}
				}
				if anyDead && roleChanges > 0 {
					nt = true
				}
				rec.Class("pref:"+prefNames[op.Pref], 1)
			}
		}
	}
	rec.Case(h, nt)
	rec.Sample(len(h.Ops), h)
	return nil
}
