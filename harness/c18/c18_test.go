// C18 — gossip is bounded, processed once per agent and never
// self-addressed.
package c18

import (
	"context"
	"fmt"
	"sort"
	"sync"
	"testing"
	"time"

	"github.com/bbva/qed/gossip"
	"github.com/bbva/qed/protocol"
	"github.com/prometheus/client_golang/prometheus"
	"pgregory.net/rapid"

	"verif/pbt"
	"verif/rig"
)

// ------------------------------------------------ tier 1: at most once

type Delivery struct {
	Batch int    `json:"batch"` // which distinct batch
	From  string `json:"from"`  // claimed sender
	TTL   int    `json:"ttl"`
}

type OnceH struct {
	Batches    [][]uint64 `json:"batches"` // versions of the snapshots of each distinct batch
	Deliveries []Delivery `json:"deliveries"`
	Factories  int        `json:"factories"`
	TickMs     int        `json:"tick_ms"` // dispatch interval of the task manager
	Refuse     []int      `json:"refuse"`  // which Add calls (by order) the task queue refuses
}

const ruleOnce = "tier 1 (at-most-once): a never-started agent with its cache, the real BatchProcessor with 1-3 counting task factories and the REAL SimpleTasksManager (started, dispatch tick 2/5/20 ms, 10 tasks per tick) whose tasks record for which batch they run (in a third of the cases its Add refuses 1-4 drawn calls with the package's own ChTimedOut, as a bounded queue may); rapid draws 1-6 distinct batches of 1-60 signed snapshots of realistic size (32-byte digests, 64-byte signatures) and a delivery list in which each batch arrives 1-6 times 'from' drawn peers with drawn TTLs, in a drawn order, interleaved with the other batches. Oracle: tasks created per distinct batch per factory <= 1, tasks EXECUTED per distinct batch per factory <= 1 and only for batches a task was created for, and every forwarded copy (re-published on the outgoing bus) belongs to a first delivery. Non-trivial: some batch is delivered >=2 times. distinct = FNV-64 of the case."

type countingFactory struct {
	mu    *sync.Mutex
	seen  map[string]int // tasks created per factory/batch
	runs  map[string]int // tasks executed per factory/batch
	which int
}

func batchKey(b *protocol.BatchSnapshots) string {
	s := ""
	for _, x := range b.Snapshots {
		s += fmt.Sprintf("%d,", x.Snapshot.Version)
	}
	return s
}

func (c countingFactory) New(ctx context.Context) gossip.Task {
	b := ctx.Value("batch").(*protocol.BatchSnapshots)
	k := fmt.Sprintf("%d/%s", c.which, batchKey(b))
	c.mu.Lock()
	c.seen[k]++
	c.mu.Unlock()
	return func() error {
		c.mu.Lock()
		c.runs[k]++
		c.mu.Unlock()
		return nil
	}
}
func (c countingFactory) Metrics() []prometheus.Collector { return nil }

// flakyTasks is the real task manager behind an Add that refuses drawn calls
// the way a bounded queue does (the TasksManager interface lets Add fail).
type flakyTasks struct {
	*gossip.SimpleTasksManager
	mu     sync.Mutex
	calls  int
	refuse map[int]bool
}

func (f *flakyTasks) Add(t gossip.Task) error {
	f.mu.Lock()
	k := f.calls
	f.calls++
	no := f.refuse[k]
	f.mu.Unlock()
	if no {
		return gossip.ChTimedOut
	}
	return f.SimpleTasksManager.Add(t)
}

type recTasks struct {
	mu sync.Mutex
	n  int
}

func (r *recTasks) Start()                {}
func (r *recTasks) Stop()                 {}
func (r *recTasks) Add(gossip.Task) error { r.mu.Lock(); r.n++; r.mu.Unlock(); return nil }
func (r *recTasks) Len() int              { r.mu.Lock(); defer r.mu.Unlock(); return r.n }

func TestAtMostOnce(t *testing.T) {
	rig.Quiet()
	rec := pbt.NewRec("C18", "TestAtMostOnce", ruleOnce)
	pbt.Run(t, rec, func(rt *rapid.T) OnceH {
		var h OnceH
		h.Factories = rapid.IntRange(1, 3).Draw(rt, "factories")
		h.TickMs = rapid.SampledFrom([]int{2, 5, 20}).Draw(rt, "tick")
		if rapid.IntRange(0, 2).Draw(rt, "flaky") == 0 {
			for i, n := 0, rapid.IntRange(1, 4).Draw(rt, "nrefuse"); i < n; i++ {
				h.Refuse = append(h.Refuse, rapid.IntRange(0, 12).Draw(rt, "refuse"))
			}
		}
		next := uint64(0)
		for i, n := 0, rapid.IntRange(1, 6).Draw(rt, "nbatches"); i < n; i++ {
			var vs []uint64
			for j, k := 0, rapid.OneOf(rapid.IntRange(1, 5), rapid.IntRange(1, 60)).Draw(rt, "size"); j < k; j++ {
				vs = append(vs, next)
				next++
			}
			// a sub-class: a batch that is a prefix of the previous one (different batch, shared content)
			if i > 0 && rapid.IntRange(0, 4).Draw(rt, "prefix") == 0 && len(h.Batches[i-1]) > 1 {
				vs = append([]uint64{}, h.Batches[i-1][:len(h.Batches[i-1])-1]...)
			}
			h.Batches = append(h.Batches, vs)
		}
		for b := range h.Batches {
			for j, k := 0, rapid.IntRange(1, 6).Draw(rt, "mult"); j < k; j++ {
				h.Deliveries = append(h.Deliveries, Delivery{Batch: b, From: fmt.Sprintf("peer%d", rapid.IntRange(0, 4).Draw(rt, "from")), TTL: rapid.IntRange(0, 4).Draw(rt, "ttl")})
			}
		}
		perm := rapid.Permutation(h.Deliveries).Draw(rt, "order")
		h.Deliveries = perm
		return h
	}, execOnce)
}

type outCollector struct {
	mu   sync.Mutex
	msgs []*gossip.Message
}

func (c *outCollector) Subscribe(id int, ch <-chan *gossip.Message) {
	go func() {
		for m := range ch {
			c.mu.Lock()
			c.msgs = append(c.msgs, m)
			c.mu.Unlock()
		}
	}()
}

func (c *outCollector) len() int { c.mu.Lock(); defer c.mu.Unlock(); return len(c.msgs) }

func execOnce(h OnceH, rec *pbt.Rec) error {
	conf := gossip.DefaultConfig()
	conf.BindAddr = "127.0.0.1:7946"
	conf.NodeName = "c18"
	conf.Role = "auditor"
	conf.CacheSize = 1 << 20
	// the real task manager, as `qed agent` builds it (shorter tick so that a case takes milliseconds)
	real := gossip.NewSimpleTasksManager(time.Duration(h.TickMs)*time.Millisecond, 10)
	tasks := &flakyTasks{SimpleTasksManager: real, refuse: map[int]bool{}}
	for _, k := range h.Refuse {
		tasks.refuse[k] = true
	}
	agent, err := gossip.NewDefaultAgent(conf, nil, nil, tasks, nil, nil)
	if err != nil {
		return &pbt.Unsettled{Why: "agent: " + err.Error()}
	}
	tasks.Start()
	defer tasks.Stop()
	mu := &sync.Mutex{}
	seen, runs := map[string]int{}, map[string]int{}
	var tfs []gossip.TaskFactory
	for i := 0; i < h.Factories; i++ {
		tfs = append(tfs, countingFactory{mu, seen, runs, i})
	}
	bp := gossip.NewBatchProcessor(agent, tfs, nil)
	agent.In.Subscribe(gossip.BatchMessageType, bp, 255)
	defer bp.Stop()
	out := &outCollector{}
	agent.Out.Subscribe(gossip.BatchMessageType, out, 1<<12)

	mult := map[int]int{}
	for _, d := range h.Deliveries {
		mult[d.Batch]++
		b := &protocol.BatchSnapshots{}
		for _, v := range h.Batches[d.Batch] {
			// realistic sizes: 32-byte digests, 64-byte signatures (a signed snapshot is ~230 bytes on the wire)
			dg := func(tag byte) []byte {
				o := make([]byte, 32)
				for i := range o {
					o[i] = tag + byte(v)*3 + byte(i)
				}
				return o
			}
			b.Snapshots = append(b.Snapshots, &protocol.SignedSnapshot{Snapshot: &protocol.Snapshot{Version: v, EventDigest: dg(1), HistoryDigest: dg(2), HyperDigest: dg(3)}, Signature: append(dg(4), dg(5)...)})
		}
		payload, _ := b.Encode()
		agent.In.Publish(&gossip.Message{Kind: gossip.BatchMessageType, TTL: d.TTL, Payload: payload, From: gossip.NewPeer(d.From, "127.0.0.1", 1, "server")})
		time.Sleep(200 * time.Microsecond)
	}
	// wait until the processor and the task manager are idle
	progress := func() int {
		mu.Lock()
		defer mu.Unlock()
		n := 0
		for _, v := range seen {
			n += v
		}
		for _, v := range runs {
			n += v
		}
		return n
	}
	last, stable := -1, 0
	for i := 0; i < 2000 && stable < 8; i++ {
		time.Sleep(time.Duration(h.TickMs+3) * time.Millisecond)
		if n := progress(); n == last && tasks.Len() == 0 {
			stable++
		} else {
			last, stable = n, 0
		}
	}
	distinct := map[string]bool{}
	for _, vs := range h.Batches {
		k := ""
		for _, v := range vs {
			k += fmt.Sprintf("%d,", v)
		}
		distinct[k] = true
	}
	mu.Lock()
	defer mu.Unlock()
	for k, n := range seen {
		if n > 1 {
			return fmt.Errorf("tasks for batch %s were created %d times by one factory (the batch was delivered repeatedly)", k, n)
		}
	}
	created, executed := 0, 0
	for _, n := range seen {
		created += n
	}
	for k, n := range runs {
		executed += n
		if n > 1 {
			return fmt.Errorf("the task of factory/batch %s was executed %d times by the task manager (%d tasks created, tick %d ms)", k, n, created, h.TickMs)
		}
		if seen[k] == 0 {
			return fmt.Errorf("a task ran for factory/batch %s, for which no task was created", k)
		}
	}
	if fw := out.len(); fw > len(distinct) {
		return fmt.Errorf("%d copies were forwarded for %d distinct batches", fw, len(distinct))
	}
	nt := false
	for _, m := range mult {
		if m >= 2 {
			nt = true
		}
	}
	rec.Case(h, nt)
	rec.Count("deliveries", int64(len(h.Deliveries)))
	rec.Count("tasks_created", int64(created))
	rec.Count("tasks_executed", int64(executed))
	rec.Sample(len(h.Deliveries), h)
	return nil
}

// ------------------------------------------ tier 2: TTL / self routing

type Pub struct {
	By  int `json:"by"`  // publishing agent
	TTL int `json:"ttl"` //
}

type NetH struct {
	Roles   []string `json:"roles"`
	Forward bool     `json:"forward"` // attach re-publishing processors
	Pubs    []Pub    `json:"pubs"`
}

const ruleNet = "tier 2 (TTL, self-routing): 3-5 started agents with drawn roles {auditor, monitor, publisher, server} form a real memberlist network on loopback in the test process; messages with drawn TTL 0-4 and a harness-chosen id are published on drawn agents' outgoing buses; collectors record everything arriving on every agent's incoming bus. Without forwarding: a message published with TTL t>0 arrives with TTL t-1 at at most one agent per role and never at the publisher (a role with a member other than the publisher that received nothing within the observation window makes the case inconclusive: delivery is not part of the property); TTL 0 is never sent. With forwarding (the real BatchProcessor re-publishing what it receives): every arrival carries 0 <= TTL < initial, arrivals stop (dissemination terminates) and their number is bounded by sum_{h=1..TTL} roles^h. Non-trivial: TTL>=2 and >=2 roles. distinct = FNV-64 of the case (+ run index, schedules differ)."

type inCollector struct {
	mu   sync.Mutex
	seen []arrival
	at   int
}

type arrival struct {
	at      int
	ttl     int
	payload string
}

func (c *inCollector) Subscribe(id int, ch <-chan *gossip.Message) {
	go func() {
		for m := range ch {
			c.mu.Lock()
			c.seen = append(c.seen, arrival{c.at, m.TTL, string(m.Payload)})
			c.mu.Unlock()
		}
	}()
}

var netRun int

func TestNetwork(t *testing.T) {
	rig.Quiet()
	rec := pbt.NewRec("C18", "TestNetwork", ruleNet, "identities of senders come from harness-chosen payload ids (Message.From is assigned after encoding and arrives nil)")
	pbt.Run(t, rec, func(rt *rapid.T) NetH {
		var h NetH
		for i, n := 0, rapid.IntRange(3, 5).Draw(rt, "agents"); i < n; i++ {
			h.Roles = append(h.Roles, rapid.SampledFrom([]string{"auditor", "monitor", "publisher", "server"}).Draw(rt, "role"))
		}
		h.Forward = rapid.IntRange(0, 2).Draw(rt, "forward") == 0
		for i, n := 0, rapid.IntRange(1, 6).Draw(rt, "pubs"); i < n; i++ {
			h.Pubs = append(h.Pubs, Pub{By: rapid.IntRange(0, len(h.Roles)-1).Draw(rt, "by"), TTL: rapid.IntRange(0, 4).Draw(rt, "ttl")})
		}
		return h
	}, execNet)
}

func execNet(h NetH, rec *pbt.Rec) error {
	netRun++
	n := len(h.Roles)
	agents := make([]*gossip.Agent, n)
	cols := make([]*inCollector, n)
	var addrs []string
	defer func() {
		for _, a := range agents {
			if a != nil {
				a.Shutdown()
			}
		}
	}()
	for i := 0; i < n; i++ {
		conf := gossip.DefaultConfig()
		conf.BindAddr = rig.FreeAddr()
		conf.NodeName = fmt.Sprintf("a%d", i)
		conf.Role = h.Roles[i]
		conf.StartJoin = append([]string{}, addrs...)
		a, err := gossip.NewDefaultAgent(conf, nil, nil, &recTasks{}, nil, nil)
		if err != nil {
			return &pbt.Unsettled{Why: "agent: " + err.Error()}
		}
		cols[i] = &inCollector{at: i}
		a.In.Subscribe(gossip.BatchMessageType, cols[i], 1<<12)
		if h.Forward {
			bp := gossip.NewBatchProcessor(a, nil, nil)
			a.In.Subscribe(gossip.BatchMessageType, bp, 255)
			defer bp.Stop()
		}
		a.Start()
		if a.Memberlist() == nil {
			return &pbt.Unsettled{Why: "memberlist did not start (port busy?)"}
		}
		agents[i] = a
		addrs = append(addrs, conf.BindAddr)
	}
	// full membership everywhere
	ok := false
	for i := 0; i < 750 && !ok; i++ {
		ok = true
		for _, a := range agents {
			if a.Memberlist().NumMembers() != n {
				ok = false
			}
		}
		if !ok {
			time.Sleep(20 * time.Millisecond)
		}
	}
	if !ok {
		return &pbt.Unsettled{Why: "gossip network did not form"}
	}
	time.Sleep(100 * time.Millisecond) // join events -> topology
	roles := map[string]bool{}
	for _, r := range h.Roles {
		roles[r] = true
	}
	for pi, p := range h.Pubs {
		// a valid (decodable) batch so that forwarding processors accept it; unique per publication
		b := &protocol.BatchSnapshots{Snapshots: []*protocol.SignedSnapshot{{Snapshot: &protocol.Snapshot{Version: uint64(pi), EventDigest: []byte(fmt.Sprintf("pub-%d-by-%d-run-%d", pi, p.By, netRun))}, Signature: []byte{1}}}}
		payload, _ := b.Encode()
		agents[p.By].Out.Publish(&gossip.Message{Kind: gossip.BatchMessageType, TTL: p.TTL, Payload: payload})
		time.Sleep(30 * time.Millisecond)
	}
	// wait for arrivals to stop
	total := func() int {
		t := 0
		for _, c := range cols {
			c.mu.Lock()
			t += len(c.seen)
			c.mu.Unlock()
		}
		return t
	}
	last, stable := -1, 0
	for i := 0; i < 800 && stable < 12; i++ {
		time.Sleep(25 * time.Millisecond)
		if t := total(); t == last {
			stable++
		} else {
			last, stable = t, 0
		}
	}
	if stable < 12 {
		return fmt.Errorf("messages are still arriving %v after publication: dissemination does not terminate (%d arrivals so far)", 20*time.Second, last)
	}
	for pi, p := range h.Pubs {
		b := &protocol.BatchSnapshots{Snapshots: []*protocol.SignedSnapshot{{Snapshot: &protocol.Snapshot{Version: uint64(pi), EventDigest: []byte(fmt.Sprintf("pub-%d-by-%d-run-%d", pi, p.By, netRun))}, Signature: []byte{1}}}}
		payload, _ := b.Encode()
		var arr []arrival
		for _, c := range cols {
			c.mu.Lock()
			for _, a := range c.seen {
				if a.payload == string(payload) {
					arr = append(arr, a)
				}
			}
			c.mu.Unlock()
		}
		tag := fmt.Sprintf("message %d published by agent %d (%s) with TTL %d among roles %v", pi, p.By, h.Roles[p.By], p.TTL, h.Roles)
		if p.TTL == 0 && len(arr) > 0 {
			return fmt.Errorf("%s: was sent although its time-to-live was exhausted (%d arrivals)", tag, len(arr))
		}
		for _, a := range arr {
			if a.ttl < 0 || a.ttl >= p.TTL {
				return fmt.Errorf("%s: arrived at agent %d with TTL %d (every hop must lower it)", tag, a.at, a.ttl)
			}
		}
		if !h.Forward {
			perRole := map[string]int{}
			for _, a := range arr {
				if a.at == p.By {
					return fmt.Errorf("%s: the publishing agent routed the message to itself", tag)
				}
				if a.ttl != p.TTL-1 {
					return fmt.Errorf("%s: first hop arrived with TTL %d, expected %d", tag, a.ttl, p.TTL-1)
				}
				perRole[h.Roles[a.at]]++
			}
			if p.TTL > 0 {
				for r := range roles {
					others := 0
					for i, rr := range h.Roles {
						if rr == r && i != p.By {
							others++
						}
					}
					if perRole[r] > 1 {
						return fmt.Errorf("%s: reached %d agents of role %s in one hop", tag, perRole[r], r)
					}
					if others > 0 && perRole[r] == 0 {
						// delivery is not part of the property (and a loaded machine can delay a
						// send past the observation window): the case decides nothing
						return &pbt.Unsettled{Why: fmt.Sprintf("%s: reached no agent of role %s within the observation window although %d exist besides the publisher", tag, r, others)}
					}
				}
			}
		} else {
			bound := 0
			pow := 1
			for hop := 1; hop <= p.TTL; hop++ {
				pow *= len(roles)
				bound += pow
			}
			if len(arr) > bound {
				return fmt.Errorf("%s: %d arrivals, more than the bound %d for %d roles", tag, len(arr), bound, len(roles))
			}
		}
		rec.Count("arrivals", int64(len(arr)))
	}
	nt := false
	for _, p := range h.Pubs {
		if p.TTL >= 2 && len(roles) >= 2 {
			nt = true
		}
	}
	cls := []string{"plain"}
	if h.Forward {
		cls = []string{"forwarding"}
	}
	rec.Case([]interface{}{h, netRun}, nt, cls...)
	rec.Sample(len(h.Pubs), h)
	return nil
}

// --------------------------------------------------- tier 3: topology

type TopOp struct {
	Op   string `json:"op"` // update delete get each
	Peer int    `json:"peer"`
	Role string `json:"role"`
	N    int    `json:"n"`
	Excl []int  `json:"excl"`
}

type TopH struct {
	Ops []TopOp `json:"ops"`
}

const ruleTop = "tier 3 (topology): the exported gossip.Topology under a sequential model: Update / Delete / Get / Each(n, excluded) with 8 peers over 4 roles; Each must return <= n peers per role, all present in the model, none excluded, pairwise distinct, and >=1 (n=1) for every role with a non-excluded member. Non-trivial: an Each after a Delete with a non-empty exclusion list. distinct = FNV-64 of the sequence. (The concurrent variant runs the same operations from several goroutines under the race detector: TestTopologyRace.)"

var topRoles = []string{"auditor", "monitor", "publisher", "server"}

func drawTop(rt *rapid.T, n int) TopH {
	var h TopH
	for i := 0; i < n; i++ {
		op := TopOp{Op: rapid.SampledFrom([]string{"update", "update", "delete", "get", "each", "each"}).Draw(rt, "op"), Peer: rapid.IntRange(0, 7).Draw(rt, "peer")}
		op.Role = topRoles[op.Peer%4] // a peer's role is stable
		op.N = rapid.IntRange(1, 3).Draw(rt, "n")
		for j, k := 0, rapid.IntRange(0, 3).Draw(rt, "nexcl"); j < k; j++ {
			op.Excl = append(op.Excl, rapid.IntRange(0, 7).Draw(rt, "excl"))
		}
		h.Ops = append(h.Ops, op)
	}
	return h
}

func TestTopologyModel(t *testing.T) {
	rec := pbt.NewRec("C18", "TestTopologyModel", ruleTop, "Delete is only issued for peers of a role the topology has seen (as memberlist's leave events are)")
	pbt.Run(t, rec, func(rt *rapid.T) TopH { return drawTop(rt, rapid.IntRange(1, 40).Draw(rt, "nops")) }, func(h TopH, rec *pbt.Rec) error {
		top := gossip.NewTopology()
		model := map[string]map[string]bool{}
		nt, deleted := false, false
		for i, op := range h.Ops {
			name := fmt.Sprintf("p%d", op.Peer)
			peer := gossip.NewPeer(name, "127.0.0.1", uint16(1000+op.Peer), op.Role)
			switch op.Op {
			case "update":
				top.Update(peer)
				if model[op.Role] == nil {
					model[op.Role] = map[string]bool{}
				}
				model[op.Role][name] = true
			case "delete":
				if model[op.Role] == nil {
					continue // role never seen: not a call memberlist can produce
				}
				top.Delete(peer)
				delete(model[op.Role], name)
				deleted = true
			case "get":
				l := top.Get(op.Role)
				got := 0
				if l != nil {
					got = l.Size()
				}
				if got != len(model[op.Role]) {
					return fmt.Errorf("op %d: Get(%s) lists %d peers, model has %d", i, op.Role, got, len(model[op.Role]))
				}
			case "each":
				var ex gossip.PeerList
				exn := map[string]bool{}
				for _, e := range op.Excl {
					ex.L = append(ex.L, gossip.NewPeer(fmt.Sprintf("p%d", e), "127.0.0.1", 1, topRoles[e%4]))
					exn[fmt.Sprintf("p%d", e)] = true
				}
				res := top.Each(op.N, &ex)
				per := map[string]int{}
				seen := map[string]bool{}
				for _, p := range res.L {
					if exn[p.Name] {
						return fmt.Errorf("op %d: Each returned excluded peer %s", i, p.Name)
					}
					if !model[p.Meta.Role][p.Name] {
						return fmt.Errorf("op %d: Each returned %s, which is not in the topology", i, p.Name)
					}
					if seen[p.Name] {
						return fmt.Errorf("op %d: Each returned %s twice", i, p.Name)
					}
					seen[p.Name] = true
					per[p.Meta.Role]++
				}
				for r, members := range model {
					avail := 0
					for m := range members {
						if !exn[m] {
							avail++
						}
					}
					if per[r] > op.N {
						return fmt.Errorf("op %d: Each(%d) returned %d peers of role %s", i, op.N, per[r], r)
					}
					if op.N == 1 && avail > 0 && per[r] != 1 {
						return fmt.Errorf("op %d: Each(1) returned %d peers of role %s although %d are available", i, per[r], r, avail)
					}
				}
				if deleted && len(op.Excl) > 0 {
					nt = true
				}
			}
		}
		rec.Case(h, nt)
		rec.Sample(len(h.Ops), h)
		return nil
	})
}

const ruleRace = "tier 3 concurrent: 2-4 updater goroutines (Update/Delete over 8 peers incl. new roles appearing) and 2-4 router goroutines (Each(1, {self, src})) on one gossip.Topology, test binary built with the Go race detector; any data race report fails the unit (the detector aborts the test binary's run as failed) and every Each result must satisfy the sequential postconditions that do not depend on timing (no excluded peer, <=1 per role, no duplicates). evaluations = concurrent runs; non-trivial: >=1 Update/Delete ran while an Each was in progress (every run; distinct by run index)."

func TestTopologyRace(t *testing.T) {
	rec := pbt.NewRec("C18", "TestTopologyRace", ruleRace, "the race detector only sees executed schedules")
	run := 0
	pbt.Run(t, rec, func(rt *rapid.T) [3]int {
		return [3]int{rapid.IntRange(2, 4).Draw(rt, "updaters"), rapid.IntRange(2, 4).Draw(rt, "routers"), rapid.IntRange(200, 2000).Draw(rt, "iters")}
	}, func(h [3]int, rec *pbt.Rec) error {
		run++
		top := gossip.NewTopology()
		var wg sync.WaitGroup
		errs := make(chan error, 16)
		stop := make(chan struct{})
		for u := 0; u < h[0]; u++ {
			wg.Add(1)
			go func(u int) {
				defer wg.Done()
				for i := 0; i < h[2]; i++ {
					k := (i*7 + u*3) % 8
					p := gossip.NewPeer(fmt.Sprintf("p%d", k), "127.0.0.1", uint16(k), topRoles[k%4])
					top.Update(p)
					if i%3 == 2 {
						top.Delete(p)
					}
				}
			}(u)
		}
		var rwg sync.WaitGroup
		for r := 0; r < h[1]; r++ {
			rwg.Add(1)
			go func(r int) {
				defer rwg.Done()
				self := gossip.NewPeer(fmt.Sprintf("p%d", r), "127.0.0.1", 1, topRoles[r%4])
				for {
					select {
					case <-stop:
						return
					default:
					}
					var ex gossip.PeerList
					ex.L = append(ex.L, self, self)
					res := top.Each(1, &ex)
					per := map[string]int{}
					for _, p := range res.L {
						if p == nil {
							continue
						}
						if p.Name == self.Name {
							errs <- fmt.Errorf("Each returned the excluded peer %s under concurrent updates", p.Name)
							return
						}
						per[p.Meta.Role]++
						if per[p.Meta.Role] > 1 {
							errs <- fmt.Errorf("Each(1) returned two peers of role %s under concurrent updates", p.Meta.Role)
							return
						}
					}
				}
			}(r)
		}
		wg.Wait()
		close(stop)
		rwg.Wait()
		rec.Case([]int{h[0], h[1], h[2], run}, true)
		rec.Sample(1, h)
		select {
		case err := <-errs:
			return err
		default:
		}
		return nil
	})
	_ = sort.Strings
}
