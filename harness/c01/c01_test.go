// C01 — every added event has a verifying membership proof at every later
// version (soundness of the prover: completeness side of the verifier).
package c01

import (
	"fmt"
	"net/http"
	"net/http/httptest"
	"testing"

	"github.com/bbva/qed/api/apihttp"
	"github.com/bbva/qed/balloon"
	"github.com/bbva/qed/client"
	"pgregory.net/rapid"

	"verif/gen"
	"verif/pbt"
	"verif/refmodel"
	"verif/rig"
)

type H struct {
	rig.LogHistory
	Pairs [][2]uint64 `json:"pairs,omitempty"` // (version of the event, query version) checked at the end when the log is too long for all pairs
	HTTP  bool        `json:"http"`
}

const rule = "rapid-drawn log histories (digests incl. prefix families and a dup class; partition into Add/AddBulk); after every call every event so far is queried at q=current, and at the end every pair (e,q), reported(e)<=q<=current is queried (all pairs when n<=48, boundary+drawn pairs above); each answer must say Exists, name a real insertion version <= q, carry CurrentVersion=n-1, and verify (object, JSON wire form, and for a sample real HTTP client) against history digest of snapshot q and hyper digest of the current snapshot. Non-trivial: n>=2 and at least one verified pair with q > version(e). distinct = FNV-64 of the history."

func TestMembership(t *testing.T) {
	rec := pbt.NewRec("C01", "TestMembership", rule,
		"snapshots used for verification are the ones the log returned (C04 ties them to the reference model)")
	maxN := pbt.Scale(80, 600)
	pbt.Run(t, rec, func(rt *rapid.T) H {
		distinct := rapid.IntRange(0, 4).Draw(rt, "distinct") != 0
		h := H{LogHistory: rig.DrawLog(rt, maxN, distinct, false)}
		n := len(h.Digests)
		if n > 48 {
			h.Pairs, _ = gen.VersionPairs(rt, n, 48, 200)
		}
		h.HTTP = rapid.IntRange(0, 5).Draw(rt, "http") == 0
		return h
	}, exec)
}

func exec(h H, rec *pbt.Rec) error {
	ds := h.Ds()
	n := len(ds)
	cls := h.Classes()
	if h.HTTP {
		cls = append(cls, "http")
	}
	b, err := rig.NewBPlus()
	if err != nil {
		return err
	}
	m := refmodel.NewLog()
	var pairs, later int64
	type heldProof struct {
		p    *balloon.MembershipProof
		e    refmodel.D
		snap *balloon.Snapshot
		at   uint64
	}
	var held []heldProof
	off := 0
	for ci, c := range h.Calls {
		part := ds[off : off+c.N]
		off += c.N
		if _, err := b.Apply(c.Bulk, part); err != nil {
			return fmt.Errorf("call %d: %v", ci, err)
		}
		m.AddBulk(part)
		cur := uint64(m.Len() - 1)
		// keep one proof per call: an answer handed to a client must not change under its hands
		// when the log grows (it has to verify against the same snapshots for ever)
		if hp, err := b.Bal.QueryDigestMembershipConsistency(rig.Dg(part[0]), cur); err == nil && len(held) < 40 {
			sn, _ := b.ClientSnapshot(cur, cur)
			held = append(held, heldProof{hp, part[0], sn, cur})
		}
		// every event so far, at q = current ("keeps holding after later insertions")
		stride := 1
		if off > 120 {
			stride = off / 60
		}
		for i := 0; i < off; i++ {
			if i%stride != 0 && i < off-c.N {
				continue
			}
			e := ds[i]
			if err := b.CheckMembership(m, e, cur, i%7 == 0); err != nil {
				return err
			}
			if i%5 == 0 {
				if err := b.CheckLatestMembership(m, e, false); err != nil {
					return err
				}
			}
			pairs++
			if m.Hyper[e] < cur {
				later++
			}
		}
	}
	cur := uint64(n - 1)
	check := func(vi, q uint64) error {
		e := ds[vi]
		if m.Hyper[e] > q { // re-inserted later: queries below the reported version legitimately fail
			return nil
		}
		if err := b.CheckMembership(m, e, q, (vi+q)%5 == 0); err != nil {
			return err
		}
		pairs++
		if q > m.Hyper[e] {
			later++
		}
		return nil
	}
	if n <= 48 {
		for vi := 0; vi < n; vi++ {
			for q := vi; q < n; q++ {
				if err := check(uint64(vi), uint64(q)); err != nil {
					return err
				}
			}
		}
		rec.Class("all-pairs", 1)
	} else {
		for _, p := range h.Pairs {
			if p[0] < uint64(n) && p[1] < uint64(n) && p[0] <= p[1] {
				if err := check(p[0], p[1]); err != nil {
					return err
				}
			}
		}
	}
	for _, hp := range held {
		if !hp.p.DigestVerify(rig.Dg(hp.e), hp.snap) {
			return fmt.Errorf("a proof for event %x… obtained when the log was at version %d verified then, but no longer verifies against the same snapshots now that the log is at version %d: the answer changed after it was handed out", hp.e[:4], hp.at, cur)
		}
	}
	rec.Count("held_proofs_reverified", int64(len(held)))
	// several clients asking at once (no insertion in flight): every one gets a verifying answer
	if n >= 2 {
		const workers = 4
		errs := make(chan error, workers)
		rounds := 60
		for w := 0; w < workers; w++ {
			go func(w int) {
				for k := 0; k < rounds; k++ {
					vi := (k*workers + w*7) % n
					e := ds[vi]
					q := m.Hyper[e] + uint64(k)%(cur-m.Hyper[e]+1)
					if err := b.CheckMembership(m, e, q, false); err != nil {
						errs <- fmt.Errorf("asked while other membership queries run: %v", err)
						return
					}
				}
				errs <- nil
			}(w)
		}
		var first error
		for w := 0; w < workers; w++ {
			if err := <-errs; err != nil && first == nil {
				first = err
			}
		}
		if first != nil {
			return first
		}
		rec.Count("concurrent_pairs_verified", int64(workers*rounds))
	}
	if h.HTTP {
		if err := viaHTTP(b, m, ds, cur, rec); err != nil {
			return err
		}
	}
	rec.Case(h, n >= 2 && later > 0, cls...)
	rec.Count("pairs_verified", pairs)
	rec.Count("pairs_with_q_after_insertion", later)
	rec.Sample(n, h)
	return nil
}

// viaHTTP checks a sample of pairs through the real handlers and client.
func viaHTTP(b *rig.B, m *refmodel.Log, ds []refmodel.D, cur uint64, rec *pbt.Rec) error {
	api := &rig.API{B: b}
	srv := httptest.NewServer(apihttp.NewApiHttp(api))
	defer srv.Close()
	c, err := client.NewSimpleHTTPClient(&http.Client{}, []string{srv.URL}, srv.URL)
	if err != nil {
		return err
	}
	defer c.Close()
	n := len(ds)
	step := 1
	if n > 12 {
		step = n / 12
	}
	for vi := 0; vi < n; vi += step {
		e := ds[vi]
		for _, q := range []uint64{m.Hyper[e], (m.Hyper[e] + cur) / 2, cur} {
			qq := q
			p, err := c.MembershipDigest(rig.Dg(e), &qq)
			if err != nil {
				return fmt.Errorf("HTTP membership(e=%x…, q=%d): %v", e[:4], q, err)
			}
			snap, _ := b.ClientSnapshot(q, cur)
			ok, err := c.MembershipVerify(rig.Dg(e), p, snap)
			if err != nil || !ok {
				return fmt.Errorf("HTTP membership(e=%x…, q=%d): client verifier rejects (%v)", e[:4], q, err)
			}
			if !p.Exists || p.CurrentVersion != cur || p.QueryVersion != q {
				return fmt.Errorf("HTTP membership(e=%x…, q=%d): answer %+v", e[:4], q, p)
			}
			rec.Count("http_pairs_verified", 1)
		}
	}
	return nil
}

// ---------------------------------------------------------------- RocksDB

const ruleRocks = "the same oracle on the durable back-end: a real Balloon on a real RocksDBStore in an executor child, with close+reopen of store and balloon at drawn points; after every call every event (strided above 60) is queried at q=current, at the end all (e,q) pairs of logs up to 32 events (boundary versions above) and consistency pairs; answers cross the JSON wire form and are judged by the client verifier against the reference model's digests. Non-trivial: n>=2, a verified pair with q > version(e), and a reopen between the insertion of some event and a query about it; distinct = FNV-64 of the history."

func TestRocksMembership(t *testing.T) {
	rec := pbt.NewRec("C01", "TestRocksMembership", ruleRocks,
		"digests used for verification are the reference model's (C04 ties the log's own to them)")
	maxN := pbt.Scale(100, 400)
	pbt.Run(t, rec, func(rt *rapid.T) rig.LogHistory {
		if rapid.IntRange(0, 9).Draw(rt, "page-boundary") == 0 {
			h := rig.DrawBigLog(rt, rapid.SampledFrom([]int{1001, 1300}).Draw(rt, "big-n"))
			for i := 1; i < len(h.Calls); i++ {
				h.Restarts = append(h.Restarts, i)
			}
			return h
		}
		distinct := rapid.IntRange(0, 4).Draw(rt, "distinct") != 0
		return rig.DrawLog(rt, maxN, distinct, true)
	}, func(h rig.LogHistory, rec *pbt.Rec) error {
		cls := h.Classes()
		st, _, err := rig.RunRocksBalloon(h, false, true)
		rec.Case(h, len(h.Digests) >= 2 && st.Later > 0 && st.Reopens > 0, cls...)
		rec.Sample(len(h.Digests), h)
		rec.Count("pairs_verified", st.Pairs)
		rec.Count("pairs_with_q_after_insertion", st.Later)
		rec.Count("consistency_pairs_verified", st.Incr)
		rec.Count("reopens", st.Reopens)
		return err
	})
}
