// C15 — the replicated-log store returns exactly what consensus stored.
package c15

import (
	"bytes"
	"fmt"
	"sort"
	"testing"
	"time"

	"pgregory.net/rapid"

	"verif/pbt"
	"verif/rig"
	"verif/xp"
)

type H struct {
	NoSync bool       `json:"nosync"`
	Ops    []xp.LogOp `json:"ops"`
}

const rule = "rapid state-machine sequences on the real RocksDB-backed raft log store (opened through the consensus hook, whole sequence run in an executor child): StoreLog, StoreLogs (0-30 entries, unordered indexes, overwrites), GetLog, DeleteRange(min,max) (empty, covering, boundary, inverted, max=2^64-1), FirstIndex, LastIndex, Set/Get, SetUint64/GetUint64, close+reopen (also with the sync option switched, as an operator may between two lives of a node); indexes anywhere in uint64 biased to small, 2^32+-1, 2^63+-1, 2^64-1; every raft.LogType; data / extensions nil, empty or binary up to 64 KB. Oracle: equality with a map model incl. every field of every entry, first/last = min/max key or 0, not-found for absent keys, all of it again after reopen and a clean process end. An inverted range (min>max) is an empty range. Non-trivial: a DeleteRange or a reopen is followed by reads. distinct = FNV-64 of the sequence."

func idxGen() *rapid.Generator[uint64] {
	return rapid.OneOf(
		rapid.Uint64Range(1, 40),
		rapid.Uint64Range(1, 40),
		rapid.SampledFrom([]uint64{0, 1, 255, 256, 1<<32 - 1, 1 << 32, 1<<32 + 1, 1<<63 - 1, 1 << 63, 1<<63 + 1, 1<<64 - 2, 1<<64 - 1}),
		rapid.Uint64(),
	)
}

func payload() *rapid.Generator[[]byte] {
	return rapid.OneOf(
		rapid.SliceOfN(rapid.Byte(), 0, 60),
		rapid.SliceOfN(rapid.Byte(), 0, 60),
		rapid.Just([]byte(nil)),
		rapid.Just([]byte{}),
		rapid.Custom(func(t *rapid.T) []byte {
			n := rapid.IntRange(1000, 65536).Draw(t, "big")
			b := make([]byte, n)
			s := rapid.Byte().Draw(t, "seed")
			for i := range b {
				b[i] = s + byte(i*7)
			}
			return b
		}),
	)
}

func entryGen(t *rapid.T, known []uint64) xp.LogEntry {
	var e xp.LogEntry
	if len(known) > 0 && rapid.IntRange(0, 3).Draw(t, "overwrite") == 0 {
		e.Index = known[rapid.IntRange(0, len(known)-1).Draw(t, "ki")]
	} else {
		e.Index = idxGen().Draw(t, "index")
	}
	e.Term = rapid.OneOf(rapid.Uint64Range(0, 9), rapid.Uint64()).Draw(t, "term")
	e.Type = uint8(rapid.IntRange(0, 5).Draw(t, "type"))
	e.Data = payload().Draw(t, "data")
	e.Ext = payload().Draw(t, "ext")
	e.Nil = [2]bool{e.Data == nil, e.Ext == nil}
	return e
}

func TestLogStore(t *testing.T) {
	rec := pbt.NewRec("C15", "TestLogStore", rule, "RocksDB 7.8 is the trusted base; values of the stable store are non-empty (raft never stores empty values); uint64 and byte settings use separate keys, as raft does")
	pbt.Run(t, rec, func(rt *rapid.T) H {
		h := H{NoSync: rapid.Bool().Draw(rt, "nosync")}
		var known []uint64
		var skeys [][]byte
		key := func(prefix byte) []byte {
			if len(skeys) > 0 && rapid.Bool().Draw(rt, "knownkey") {
				k := skeys[rapid.IntRange(0, len(skeys)-1).Draw(rt, "sk")]
				if k[0] == prefix {
					return k
				}
			}
			k := append([]byte{prefix}, rapid.SliceOfN(rapid.Byte(), 0, 12).Draw(rt, "skey")...)
			skeys = append(skeys, k)
			return k
		}
		pickIdx := func(label string) uint64 {
			if len(known) > 0 && rapid.IntRange(0, 2).Draw(rt, label+"-known") != 0 {
				i := known[rapid.IntRange(0, len(known)-1).Draw(rt, label+"-i")]
				switch rapid.IntRange(0, 5).Draw(rt, label+"-off") {
				case 0:
					return i - 1
				case 1:
					return i + 1
				}
				return i
			}
			return idxGen().Draw(rt, label)
		}
		for i, n := 0, rapid.IntRange(1, 50).Draw(rt, "nops"); i < n; i++ {
			op := rapid.SampledFrom([]string{"store", "stores", "stores", "get", "get", "delrange", "first", "last", "set", "get-k", "setu", "getu", "reopen", "reopen-toggle"}).Draw(rt, "op")
			switch op {
			case "store":
				e := entryGen(rt, known)
				known = append(known, e.Index)
				h.Ops = append(h.Ops, xp.LogOp{Op: "store", Entries: []xp.LogEntry{e}})
			case "stores":
				op := xp.LogOp{Op: "stores"}
				base := idxGen().Draw(rt, "base")
				for j, k := 0, rapid.IntRange(0, 30).Draw(rt, "nentries"); j < k; j++ {
					e := entryGen(rt, known)
					if rapid.Bool().Draw(rt, "consecutive") {
						e.Index = base + uint64(j)
					}
					known = append(known, e.Index)
					op.Entries = append(op.Entries, e)
				}
				h.Ops = append(h.Ops, op)
			case "get":
				h.Ops = append(h.Ops, xp.LogOp{Op: "get", Index: pickIdx("get")})
			case "delrange":
				a, b := pickIdx("min"), pickIdx("max")
				if a > b && rapid.IntRange(0, 4).Draw(rt, "keep-inverted") != 0 {
					a, b = b, a
				}
				h.Ops = append(h.Ops, xp.LogOp{Op: "delrange", Min: a, Max: b})
			case "first":
				h.Ops = append(h.Ops, xp.LogOp{Op: "first"})
			case "last":
				h.Ops = append(h.Ops, xp.LogOp{Op: "last"})
			case "set":
				h.Ops = append(h.Ops, xp.LogOp{Op: "set", K: key('k'), V: rapid.SliceOfN(rapid.Byte(), 1, 40).Draw(rt, "sval")})
			case "get-k":
				h.Ops = append(h.Ops, xp.LogOp{Op: "get-k", K: key('k')})
			case "setu":
				h.Ops = append(h.Ops, xp.LogOp{Op: "setu", K: key('u'), U: idxGen().Draw(rt, "uval")})
			case "getu":
				h.Ops = append(h.Ops, xp.LogOp{Op: "getu", K: key('u')})
			case "reopen", "reopen-toggle":
				h.Ops = append(h.Ops, xp.LogOp{Op: op})
			}
		}
		return h
	}, exec)
}

type model struct {
	logs map[uint64]xp.LogEntry
	kv   map[string][]byte
	u    map[string]uint64
}

func (m *model) bounds() (first, last uint64) {
	if len(m.logs) == 0 {
		return 0, 0
	}
	ks := make([]uint64, 0, len(m.logs))
	for k := range m.logs {
		ks = append(ks, k)
	}
	sort.Slice(ks, func(i, j int) bool { return ks[i] < ks[j] })
	return ks[0], ks[len(ks)-1]
}

func sameEntry(got *xp.LogEntry, want xp.LogEntry) error {
	if got == nil {
		return fmt.Errorf("no entry returned")
	}
	if got.Index != want.Index || got.Term != want.Term || got.Type != want.Type {
		return fmt.Errorf("entry (index %d term %d type %d) came back as (index %d term %d type %d)", want.Index, want.Term, want.Type, got.Index, got.Term, got.Type)
	}
	if !bytes.Equal(got.Data, want.Data) {
		return fmt.Errorf("entry %d: data of %d bytes came back as %d bytes", want.Index, len(want.Data), len(got.Data))
	}
	if !bytes.Equal(got.Ext, want.Ext) {
		return fmt.Errorf("entry %d: extensions of %d bytes came back as %d bytes", want.Index, len(want.Ext), len(got.Ext))
	}
	return nil
}

func exec(h H, rec *pbt.Rec) error {
	x, err := rig.StartExec("nodeexec")
	if err != nil {
		return fmt.Errorf("cannot start executor: %v", err)
	}
	defer x.Kill()
	dir := rig.WorkDir("c15")
	if r, err := x.Call(&xp.Req{Op: "rlog-open", Name: "l", Path: dir + "/wal", NoSync: h.NoSync}, 30*time.Second); err != nil || r.Err != "" {
		return fmt.Errorf("open: %v %v", err, r)
	}
	// final sweep: reopen, then read back every index the model knows (and its neighbours)
	m := &model{logs: map[uint64]xp.LogEntry{}, kv: map[string][]byte{}, u: map[string]uint64{}}
	ops := append([]xp.LogOp{}, h.Ops...)
	r, err := x.Call(&xp.Req{Op: "rlog-run", Name: "l", LogOps: ops}, 120*time.Second)
	if err != nil {
		return fmt.Errorf("the process holding the log store died while running the sequence: %v", err)
	}
	if len(r.LogObs) != len(ops) {
		return fmt.Errorf("%d observations for %d operations", len(r.LogObs), len(ops))
	}
	nt, armed := false, false
	check := func(i int, op xp.LogOp, got xp.LogObs) error {
		tag := fmt.Sprintf("op %d %s", i, op.Op)
		switch op.Op {
		case "store", "stores":
			if got.Err != "" {
				return fmt.Errorf("%s: error %s", tag, got.Err)
			}
			for _, e := range op.Entries {
				m.logs[e.Index] = e
			}
		case "get":
			want, ok := m.logs[op.Index]
			if got.Err != "" {
				return fmt.Errorf("%s(%d): error %s", tag, op.Index, got.Err)
			}
			if !ok {
				if !got.NotFound {
					return fmt.Errorf("%s(%d): returned an entry for an index that holds none", tag, op.Index)
				}
			} else {
				if got.NotFound {
					return fmt.Errorf("%s(%d): not found, but an entry was stored there", tag, op.Index)
				}
				if err := sameEntry(got.Entry, want); err != nil {
					return fmt.Errorf("%s(%d): %v", tag, op.Index, err)
				}
			}
			if armed {
				nt = true
			}
		case "delrange":
			if got.Err != "" {
				return fmt.Errorf("%s(%d,%d): error %s", tag, op.Min, op.Max, got.Err)
			}
			if op.Min <= op.Max {
				for k := range m.logs {
					if k >= op.Min && k <= op.Max {
						delete(m.logs, k)
					}
				}
			}
			armed = true
		case "first", "last":
			f, l := m.bounds()
			want := f
			if op.Op == "last" {
				want = l
			}
			if got.Err != "" || got.U != want {
				return fmt.Errorf("%s: %d (err %q), model %d", tag, got.U, got.Err, want)
			}
			if armed {
				nt = true
			}
		case "set":
			if got.Err != "" {
				return fmt.Errorf("%s: error %s", tag, got.Err)
			}
			m.kv[string(op.K)] = op.V
		case "get-k":
			want, ok := m.kv[string(op.K)]
			if got.Err != "" || ok == got.NotFound || ok && !bytes.Equal(got.V, want) {
				return fmt.Errorf("%s(%x): got %x notfound=%v err=%q, model %x present=%v", tag, op.K, got.V, got.NotFound, got.Err, want, ok)
			}
		case "setu":
			if got.Err != "" {
				return fmt.Errorf("%s: error %s", tag, got.Err)
			}
			m.u[string(op.K)] = op.U
		case "getu":
			want, ok := m.u[string(op.K)]
			if got.Err != "" || ok == got.NotFound || ok && got.U != want {
				return fmt.Errorf("%s(%x): got %d notfound=%v err=%q, model %d present=%v", tag, op.K, got.U, got.NotFound, got.Err, want, ok)
			}
		case "reopen", "reopen-toggle":
			if got.Err != "" {
				return fmt.Errorf("%s: %s", tag, got.Err)
			}
			armed = true
		}
		return nil
	}
	for i, op := range ops {
		if err := check(i, op, r.LogObs[i]); err != nil {
			return err
		}
	}
	// sweep after a final reopen
	sweep := []xp.LogOp{{Op: "reopen"}, {Op: "first"}, {Op: "last"}}
	for k := range m.logs {
		sweep = append(sweep, xp.LogOp{Op: "get", Index: k}, xp.LogOp{Op: "get", Index: k + 1}, xp.LogOp{Op: "get", Index: k - 1})
	}
	for k := range m.kv {
		sweep = append(sweep, xp.LogOp{Op: "get-k", K: []byte(k)})
	}
	for k := range m.u {
		sweep = append(sweep, xp.LogOp{Op: "getu", K: []byte(k)})
	}
	r, err = x.Call(&xp.Req{Op: "rlog-run", Name: "l", LogOps: sweep}, 120*time.Second)
	if err != nil {
		return fmt.Errorf("final close+reopen: %v", err)
	}
	for i, op := range sweep {
		if err := check(len(ops)+i, op, r.LogObs[i]); err != nil {
			return fmt.Errorf("after the final reopen: %v", err)
		}
	}
	if r, err := x.Call(&xp.Req{Op: "rlog-close", Name: "l"}, 30*time.Second); err != nil || r.Err != "" {
		return fmt.Errorf("closing the log store: %v %v", err, r)
	}
	if d := x.Exit(); d.ExitCode != 0 || d.Signal != "" {
		return fmt.Errorf("process holding the log store did not end cleanly: %v", d)
	}
	rec.Case(h, nt)
	for _, op := range ops {
		rec.Class(op.Op, 1)
	}
	hs := H{NoSync: h.NoSync}
	for _, op := range h.Ops { // keep samples small: stop at the first large payload
		big := false
		for _, e := range op.Entries {
			if len(e.Data) > 64 || len(e.Ext) > 64 {
				big = true
			}
		}
		if big {
			break
		}
		hs.Ops = append(hs.Ops, op)
	}
	rec.Sample(len(hs.Ops), hs)
	return nil
}
