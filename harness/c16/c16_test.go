// C16 — a backup restores to exactly the log as of the backup's version.
package c16

import (
	"encoding/json"
	"fmt"
	"io"
	"net/http"
	"net/url"
	"os"
	"strings"
	"testing"
	"time"

	"pgregory.net/rapid"

	"verif/pbt"
	"verif/refmodel"
	"verif/rig"
	"verif/xp"
)

type Step struct {
	Op     string   `json:"op"` // add | backup | delete | list | restore
	Events []string `json:"events,omitempty"`
	K      int      `json:"k,omitempty"` // which alive backup (mod count)
	// HTTP: go through the management API (POST /backup, GET /backups, DELETE /backup?backupID=...)
	// instead of calling the node directly
	HTTP bool `json:"http,omitempty"`
	// NoList: do not list the backups right after this backup / delete step (a listing after every
	// single change can never show a stale one)
	NoList bool `json:"nolist,omitempty"`
	// Spell (delete over HTTP only): how the request names the backup. "" = its decimal id;
	// "zeros" = the same id with leading zeros (still names it). Everything else names NO
	// existing backup and must leave the set of backups as it was: "wrap32" = id+2^32,
	// "wrap33" = id+2^33, "neg" = -id, "plus" = "+id", "hex" = 0x..., "junk", "empty",
	// "missing" (no parameter), "unknown" (an id never issued), "space" = "id " .
	Spell string `json:"spell,omitempty"`
}

type H struct {
	Steps []Step `json:"steps"`
}

const rule = "rapid stateful sequences on a single-node RaftNode over RocksDB (executor child): add / bulk, CreateBackup, DeleteBackup(k-th alive), ListBackups — each either on the node or (drawn) through the management API in front of it (POST /backup, GET /backups, DELETE /backup?backupID=<spelling>; the spelling is the id, the id with leading zeros, or one that names NO existing backup: id+2^32, id+2^33, -id, +id, 0x<id>, '<id>abc', '<id> ', empty, a never-issued id, or a wrong parameter name) — restore(k-th alive backup by id, or 'the latest backup') with the real command line (`qed restore --backup-dir --restore-path [--backup-id]`, run in a second child while the node keeps running) into a fresh directory followed by opening a fresh node (fresh raft directory, as the documented procedure does) on it in a second child. Model: backup id -> version and event count at backup time. Listings are made after a drawn half of the backup / delete steps, at every list step and at the end (a listing after every single change could never be stale). Oracle: ListBackups = model (ids and metadata = version); delete removes exactly the one named and a request naming no existing backup removes nothing; the restored node reports version v, proves membership of every event <= v and consistency of sampled pairs <= v against the snapshots ORIGINALLY issued (= reference model), answers Exists=false for every later event, and its first accepted insertion is acknowledged with version v+1 and the reference digests. Non-trivial: a restore of a backup that has >=1 insertion after it while >=2 backups are alive. distinct = FNV-64 of the history."

func TestBackupRestore(t *testing.T) {
	rec := pbt.NewRec("C16", "TestBackupRestore", rule, "backups are taken of non-empty logs (an empty log has no version)")
	pbt.Run(t, rec, func(rt *rapid.T) H {
		var h H
		alive, events, seq := 0, 0, 0
		n := rapid.IntRange(5, pbt.Scale(14, 20)).Draw(rt, "steps")
		restores := 0
		for i := 0; i < n; i++ {
			ops := []string{"add", "add"}
			if events > 0 {
				ops = append(ops, "backup", "backup", "list")
			}
			if alive > 0 {
				if alive > 1 || i%2 == 0 {
					ops = append(ops, "delete")
				}
				if alive > 1 {
					ops = append(ops, "delete")
				}
				if restores < pbt.Scale(2, 3) {
					ops = append(ops, "restore", "restore", "restore-latest")
				}
			}
			switch op := rapid.SampledFrom(ops).Draw(rt, "op"); op {
			case "add":
				k := rapid.IntRange(1, 5).Draw(rt, "bulk")
				var es []string
				for j := 0; j < k; j++ {
					es = append(es, fmt.Sprintf("ev-%d", seq))
					seq++
				}
				events += k
				h.Steps = append(h.Steps, Step{Op: "add", Events: es})
			case "backup":
				alive++
				h.Steps = append(h.Steps, Step{Op: "backup", HTTP: rapid.Bool().Draw(rt, "http"), NoList: rapid.Bool().Draw(rt, "nolist")})
			case "delete":
				st := Step{Op: "delete", K: rapid.IntRange(0, 7).Draw(rt, "k"), HTTP: rapid.Bool().Draw(rt, "http"), NoList: rapid.Bool().Draw(rt, "nolist")}
				if st.HTTP {
					st.Spell = rapid.SampledFrom([]string{"", "", "", "zeros", "wrap32", "wrap32", "wrap33", "neg", "plus", "hex", "junk", "empty", "missing", "unknown", "space"}).Draw(rt, "spell")
				}
				if st.Spell == "" || st.Spell == "zeros" {
					alive--
				}
				h.Steps = append(h.Steps, st)
			case "list":
				h.Steps = append(h.Steps, Step{Op: "list", HTTP: rapid.Bool().Draw(rt, "http")})
			case "restore", "restore-latest":
				restores++
				h.Steps = append(h.Steps, Step{Op: op, K: rapid.IntRange(0, 7).Draw(rt, "k")})
			default:
				h.Steps = append(h.Steps, Step{Op: op})
			}
		}
		// most sequences end with the interesting shape: two backups alive, an insertion
		// after the older one, and a restore
		if rapid.IntRange(0, 3).Draw(rt, "closing") != 0 {
			for alive < 2 {
				if events == 0 || rapid.Bool().Draw(rt, "closing-add") {
					h.Steps = append(h.Steps, Step{Op: "add", Events: []string{fmt.Sprintf("ev-%d", seq)}})
					seq++
					events++
				}
				h.Steps = append(h.Steps, Step{Op: "backup", HTTP: rapid.Bool().Draw(rt, "closing-http")})
				alive++
			}
			h.Steps = append(h.Steps, Step{Op: "add", Events: []string{fmt.Sprintf("ev-%d", seq)}})
			h.Steps = append(h.Steps, Step{Op: rapid.SampledFrom([]string{"restore", "restore", "restore-latest"}).Draw(rt, "closing-restore"), K: rapid.IntRange(0, 7).Draw(rt, "closing-k")})
		}
		return h
	}, exec)
}

type backup struct {
	id      int64
	version uint64 // version at backup time (events-1)
	latest  bool   // restore through the "latest backup" path instead of by id
}

func unsettled(f string, a ...interface{}) error { return &pbt.Unsettled{Why: fmt.Sprintf(f, a...)} }

func exec(h H, rec *pbt.Rec) error {
	x, err := rig.StartExec("nodeexec")
	if err != nil {
		return unsettled("executor: %v", err)
	}
	defer x.Kill()
	dir := rig.WorkDir("c16")
	n, err := rig.OpenNode(x, "n", xp.NodeOpts{Dir: dir, Bootstrap: true, TimeoutMs: 150, SnapshotThreshold: 1 << 30})
	if err != nil {
		return unsettled("open: %v", err)
	}
	if err := n.WaitLeader(20 * time.Second); err != nil {
		return unsettled("%v", err)
	}
	m := refmodel.NewLog()
	var alive []backup
	nextID := int64(1)
	nt := false
	restores := 0
	checkList := func(when string) error {
		r, err := n.Simple("node-backups", 0, "")
		if err != nil {
			return unsettled("list: %v", err)
		}
		if len(r.Backups) != len(alive) {
			return fmt.Errorf("%s: listing shows %d backups %v, %d exist %v", when, len(r.Backups), r.Backups, len(alive), alive)
		}
		for i, b := range alive {
			if r.Backups[i].ID != b.id || r.Backups[i].Metadata != fmt.Sprintf("%d", b.version) {
				return fmt.Errorf("%s: listing entry %d is (id %d, metadata %q), expected (id %d, version %d)", when, i, r.Backups[i].ID, r.Backups[i].Metadata, b.id, b.version)
			}
		}
		return nil
	}
	mgmtURL := ""
	mgmt := func(method, path string, q url.Values) (int, []byte, error) {
		if mgmtURL == "" {
			r, err := n.Simple("node-mgmt", 0, "")
			if err != nil || r.URL == "" {
				return 0, nil, fmt.Errorf("management API: %v %v", err, r)
			}
			mgmtURL = r.URL
		}
		u := mgmtURL + path
		if q != nil {
			u += "?" + q.Encode()
		}
		req, err := http.NewRequest(method, u, nil)
		if err != nil {
			return 0, nil, err
		}
		resp, err := (&http.Client{Timeout: 60 * time.Second}).Do(req)
		if err != nil {
			return 0, nil, err
		}
		defer resp.Body.Close()
		b, _ := io.ReadAll(resp.Body)
		return resp.StatusCode, b, nil
	}
	for si, s := range h.Steps {
		switch s.Op {
		case "add":
			res, err := n.Add(evsOf(s.Events), false)
			if err != nil || res.Err != "" {
				return unsettled("add: %v %v", err, res)
			}
			m.AddBulk(digestsOf(s.Events))
		case "backup":
			if s.HTTP {
				code, body, err := mgmt("POST", "/backup", nil)
				if err != nil {
					return unsettled("backup over HTTP: %v", err)
				}
				if code != 200 {
					return fmt.Errorf("step %d: POST /backup answered %d %q", si, code, body)
				}
				rec.Class("backup-over-http", 1)
			} else {
				r, err := n.Simple("node-backup", 0, "")
				if err != nil {
					return unsettled("backup: %v", err)
				}
				if r.Err != "" {
					return fmt.Errorf("step %d: CreateBackup failed: %s", si, r.Err)
				}
			}
			alive = append(alive, backup{id: nextID, version: uint64(m.Len() - 1)})
			nextID++
			if !s.NoList {
				if err := checkList(fmt.Sprintf("step %d after backup", si)); err != nil {
					return err
				}
			}
		case "delete":
			if len(alive) == 0 {
				continue
			}
			k := s.K % len(alive)
			if s.HTTP {
				id := alive[k].id
				q := url.Values{}
				names := false
				switch s.Spell {
				case "":
					q.Set("backupID", fmt.Sprintf("%d", id))
					names = true
				case "zeros":
					q.Set("backupID", fmt.Sprintf("000%d", id))
					names = true
				case "wrap32":
					q.Set("backupID", fmt.Sprintf("%d", uint64(id)+1<<32))
				case "wrap33":
					q.Set("backupID", fmt.Sprintf("%d", uint64(id)+1<<33))
				case "neg":
					q.Set("backupID", fmt.Sprintf("-%d", id))
				case "plus":
					q.Set("backupID", fmt.Sprintf("+%d", id))
				case "hex":
					q.Set("backupID", fmt.Sprintf("0x%x", id))
				case "junk":
					q.Set("backupID", fmt.Sprintf("%dabc", id))
				case "space":
					q.Set("backupID", fmt.Sprintf("%d ", id))
				case "empty":
					q.Set("backupID", "")
				case "unknown":
					q.Set("backupID", fmt.Sprintf("%d", nextID+3))
				case "missing":
					q.Set("id", fmt.Sprintf("%d", id))
				}
				code, body, err := mgmt("DELETE", "/backup", q)
				if err != nil {
					return unsettled("delete over HTTP: %v", err)
				}
				rec.Class("delete-over-http:"+s.Spell, 1)
				if names {
					if code/100 != 2 {
						return fmt.Errorf("step %d: DELETE /backup?%s (an existing backup) answered %d %q", si, q.Encode(), code, body)
					}
					alive = append(alive[:k:k], alive[k+1:]...)
				}
				if !s.NoList {
					if err := checkList(fmt.Sprintf("step %d after DELETE /backup?%s (answered %d; %s)", si, q.Encode(), code, map[bool]string{true: "names backup " + fmt.Sprint(id), false: "names no existing backup"}[names])); err != nil {
						return err
					}
				}
				continue
			}
			r, err := n.Simple("node-backup-delete", uint64(alive[k].id), "")
			if err != nil {
				return unsettled("delete: %v", err)
			}
			if r.Err != "" {
				return fmt.Errorf("step %d: DeleteBackup(%d) failed: %s", si, alive[k].id, r.Err)
			}
			alive = append(alive[:k:k], alive[k+1:]...)
			if !s.NoList {
				if err := checkList(fmt.Sprintf("step %d after deleting a backup", si)); err != nil {
					return err
				}
			}
		case "list":
			if s.HTTP {
				code, body, err := mgmt("GET", "/backups", nil)
				if err != nil {
					return unsettled("list over HTTP: %v", err)
				}
				var got []struct {
					ID       int64
					Metadata string
				}
				if code != 200 || json.Unmarshal(body, &got) != nil {
					return fmt.Errorf("step %d: GET /backups answered %d %q", si, code, body)
				}
				if len(got) != len(alive) {
					return fmt.Errorf("step %d: GET /backups shows %d backups %v, %d exist %v", si, len(got), got, len(alive), alive)
				}
				for i, b := range alive {
					if got[i].ID != b.id || got[i].Metadata != fmt.Sprintf("%d", b.version) {
						return fmt.Errorf("step %d: GET /backups entry %d is (id %d, metadata %q), expected (id %d, version %d)", si, i, got[i].ID, got[i].Metadata, b.id, b.version)
					}
				}
				rec.Class("list-over-http", 1)
			}
			if err := checkList(fmt.Sprintf("step %d", si)); err != nil {
				return err
			}
		case "restore", "restore-latest":
			if len(alive) == 0 {
				continue
			}
			b := alive[s.K%len(alive)]
			if s.Op == "restore-latest" {
				// what `qed restore` does when no backup id is given: the newest existing backup
				b = alive[len(alive)-1]
				b.latest = true
			}
			restores++
			if uint64(m.Len()-1) > b.version && len(alive) >= 2 {
				nt = true
			}
			if err := restoreAndCheck(n, m, b, dir, restores, rec); err != nil {
				if u, ok := err.(*pbt.Unsettled); ok {
					return u
				}
				return fmt.Errorf("step %d: restore of backup %d (taken at version %d; log now at %d): %v", si, b.id, b.version, m.Len()-1, err)
			}
		}
	}
	if err := checkList("at the end of the sequence"); err != nil {
		return err
	}
	rec.Case(h, nt)
	rec.Count("restores", int64(restores))
	rec.Sample(len(h.Steps), h)
	return nil
}

func evsOf(ss []string) [][]byte {
	out := make([][]byte, len(ss))
	for i, s := range ss {
		out[i] = []byte(s)
	}
	return out
}

func digestsOf(ss []string) []refmodel.D {
	out := make([]refmodel.D, len(ss))
	for i, s := range ss {
		out[i] = refmodel.EventDigest([]byte(s))
	}
	return out
}

// prefixModel is the reference log truncated to its first k events.
func prefixModel(m *refmodel.Log, k int) *refmodel.Log {
	p := refmodel.NewLog()
	for _, s := range m.Snapshots[:k] {
		_ = s
	}
	// re-apply event by event: snapshots of a bulk carry the bulk's final hyper digest, which
	// does not matter here because only history digests and the final hyper digest are used
	for i := 0; i < k; i++ {
		p.AddBulk([]refmodel.D{m.Events[i]})
	}
	return p
}

func restoreAndCheck(n *rig.Node, m *refmodel.Log, b backup, dir string, seq int, rec *pbt.Rec) error {
	rdir := fmt.Sprintf("%s/restored-%d", dir, seq)
	// the documented procedure: `qed restore --backup-dir <db>/backups --restore-path <new db>
	// [--backup-id N]` (no id = the latest backup), run in a process of its own while the
	// node that took the backups keeps running, then a node is started on the restored directory
	y, err := rig.StartExec("nodeexec")
	if err != nil {
		return unsettled("executor: %v", err)
	}
	defer y.Kill()
	args := []string{"restore", "--backup-dir", dir + "/db/backups", "--restore-path", rdir + "/db"}
	if !b.latest {
		args = append(args, "--backup-id", fmt.Sprintf("%d", b.id))
	}
	os.MkdirAll(rdir+"/db", 0o755)
	r, err := y.Call(&xp.Req{Op: "cli", Args: args}, 120*time.Second)
	if err != nil {
		return fmt.Errorf("`qed %s` killed its process: %v", strings.Join(args, " "), err)
	}
	if r.Err != "" {
		return fmt.Errorf("`qed %s` failed: %s", strings.Join(args, " "), r.Err)
	}
	rn, err := rig.OpenNode(y, "r", xp.NodeOpts{DBDir: rdir + "/db", RaftDir: rdir + "/raft", Bootstrap: true, TimeoutMs: 150, SnapshotThreshold: 1 << 30})
	if err != nil {
		return fmt.Errorf("a fresh node cannot be opened on the restored directory: %v", err)
	}
	if err := rn.WaitLeader(20 * time.Second); err != nil {
		return unsettled("%v", err)
	}
	st, err := rn.State()
	if err != nil {
		return unsettled("%v", err)
	}
	v := b.version
	if st.BalloonVersion != v+1 {
		return fmt.Errorf("restored node is at version %d, the backup recorded version %d", st.BalloonVersion-1, v)
	}
	// proofs for everything up to v against the ORIGINAL snapshots
	pm := prefixModel(m, int(v)+1)
	// history digests of the prefix equal the originals; make that explicit
	for i := 0; i <= int(v); i++ {
		if pm.Snapshots[i].HistoryDigest != m.Snapshots[i].HistoryDigest {
			return unsettled("reference model inconsistency")
		}
	}
	k, err := rig.CheckNode(rn, pm, 20)
	rec.Count("proofs_verified_on_restored", int64(k))
	if err != nil {
		return fmt.Errorf("restored node: %v", err)
	}
	// later events are unknown
	var qs []xp.Query
	for i := int(v) + 1; i < m.Len() && len(qs) < 12; i++ {
		if _, dup := pm.Hyper[m.Events[i]]; !dup {
			qs = append(qs, xp.Query{Kind: "member-latest", Digest: rig.Dg(m.Events[i])})
		}
	}
	if len(qs) > 0 {
		as, err := rn.Query(qs)
		if err != nil {
			return unsettled("%v", err)
		}
		for i, a := range as {
			if a.Panic != "" || a.Err != "" || a.Timeout {
				return fmt.Errorf("restored node: query for an event added after the backup fails: %s%s", a.Panic, a.Err)
			}
			mr, _, err := rig.DecodeMember(a)
			if err != nil {
				return fmt.Errorf("restored node: %v", err)
			}
			if mr.Exists {
				return fmt.Errorf("restored node knows event %x… which was added after the backup", qs[i].Digest[:4])
			}
		}
	}
	// next insertion gets v+1 with the reference digests
	known := pbt.Known("F-C16-1")
	for attempt := 0; attempt < 200; attempt++ {
		ev := fmt.Sprintf("after-restore-%d-%d", seq, attempt)
		res, err := rn.Add([][]byte{[]byte(ev)}, attempt%2 == 0)
		if err != nil {
			return fmt.Errorf("restored node died on the next insertion: %v", err)
		}
		if res.Err != "" {
			sig := strings.Contains(res.Err, "state already applied")
			if known && sig {
				// F-C16-1: excluded by construction, counted; keep going until the node accepts again
				rec.Count("excluded_by_known_finding:F-C16-1", 1)
				continue
			}
			return fmt.Errorf("restored node refuses the next insertion: %s", res.Err)
		}
		want := pm.AddBulk([]refmodel.D{refmodel.EventDigest([]byte(ev))})
		if err := rig.CheckAck(res.Snaps, want); err != nil {
			return fmt.Errorf("first insertion accepted by the restored node: %v", err)
		}
		if _, err := rig.CheckNode(rn, pm, 6); err != nil {
			return fmt.Errorf("restored node after its first insertion: %v", err)
		}
		break
	}
	if cerr, err := rn.Close(true); err != nil || cerr != "" {
		return unsettled("closing restored node: %v %v", err, cerr)
	}
	y.Exit()
	return nil
}

// TestKnownFindings replays the inputs of the listed known findings.
func TestKnownFindings(t *testing.T) {
	defer pbt.CleanWork()
	rec := pbt.NewRec("C16", "TestKnownFindings", "probe of listed known findings (not counted as exploration)")
	defer rec.Flush()
	if !pbt.Known("F-C16-1") {
		t.Skip("F-C16-1 not listed as known")
	}
	x, err := rig.StartExec("nodeexec")
	if err != nil {
		t.Skip(err)
	}
	defer x.Kill()
	dir := rig.WorkDir("c16k")
	n, err := rig.OpenNode(x, "n", xp.NodeOpts{Dir: dir, Bootstrap: true, TimeoutMs: 150, SnapshotThreshold: 1 << 30})
	if err != nil || n.WaitLeader(20*time.Second) != nil {
		t.Skip("cannot open node")
	}
	for i := 0; i < 4; i++ {
		n.Add([][]byte{[]byte(fmt.Sprintf("k%d", i))}, true)
	}
	n.Simple("node-backup", 0, "")
	if r, err := n.Simple("node-restore", 1, dir+"/restored/db"); err != nil || r.Err != "" {
		t.Skip("restore failed")
	}
	y, _ := rig.StartExec("nodeexec")
	defer y.Kill()
	rn, err := rig.OpenNode(y, "r", xp.NodeOpts{DBDir: dir + "/restored/db", RaftDir: dir + "/restored/raft", Bootstrap: true, TimeoutMs: 150})
	if err != nil || rn.WaitLeader(20*time.Second) != nil {
		t.Skip("cannot open restored node")
	}
	res, err := rn.Add([][]byte{[]byte("next")}, true)
	if err == nil && res.Err != "" && (strings.Contains(res.Err, "state already applied")) {
		pbt.KnownFinding("C16", "F-C16-1", "a fresh node opened on a restored backup (4 events, fresh raft directory) answers the next insertion with: "+res.Err)
	}
}
