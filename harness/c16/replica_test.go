package c16

import (
	"fmt"
	"sort"
	"testing"
	"time"

	"pgregory.net/rapid"

	"verif/pbt"
	"verif/rig"
	"verif/xp"
)

// RH: a backup taken on a replica of a cluster, possibly one that got its
// state by transfer from the leader.
type RH struct {
	Before  []int  `json:"before"`   // bulk sizes inserted with all nodes up
	While   []int  `json:"while"`    // bulk sizes inserted while a follower is down (then the log is compacted)
	NewNode bool   `json:"new_node"` // a brand-new node joins instead of the follower returning
	On      string `json:"on"`       // restored | leader | other : which replica takes the backup
	After   []int  `json:"after"`    // insertions after the backup
	Latest  bool   `json:"latest"`   // restore "the latest backup" instead of naming its id
}

const ruleReplica = "a 3-node cluster over RocksDB (one executor child): insertions, a follower goes down, more insertions, the raft log is compacted on the remaining nodes (forced snapshot, TrailingLogs=0), the follower returns or a brand-new node joins and is brought up to date by state transfer; after quiescence a backup is taken on a drawn replica (2 in 3: the one that was just restored by state transfer; else the leader or the other follower), more insertions follow, and the backup is restored with the real `qed restore` command into a fresh directory on which a fresh single node is opened (second child). Oracle: as TestBackupRestore — the restored node is at the backup's version, proves every event up to it against the snapshots originally acknowledged, does not know later events, and accepts the next insertion with version v+1 (known finding F-C16-1 excluded). Non-trivial: the backup was taken on the replica that received its state by transfer and >=1 insertion follows the backup. distinct = FNV-64 of the history."

func TestBackupOfReplica(t *testing.T) {
	rec := pbt.NewRec("C16", "TestBackupOfReplica", ruleReplica, "no network faults; replicas share a process")
	pbt.Run(t, rec, func(rt *rapid.T) RH {
		var h RH
		sizes := func(label string, min, max int) (out []int) {
			for i, n := 0, rapid.IntRange(min, max).Draw(rt, label); i < n; i++ {
				out = append(out, rapid.IntRange(1, 5).Draw(rt, label+"-bulk"))
			}
			return
		}
		h.Before = sizes("before", 0, 3)
		h.While = sizes("while", 1, 5)
		h.NewNode = rapid.IntRange(0, 2).Draw(rt, "new") == 0
		h.On = rapid.SampledFrom([]string{"restored", "restored", "restored", "restored", "leader", "other"}).Draw(rt, "on")
		h.After = sizes("after", 1, 3)
		h.Latest = rapid.Bool().Draw(rt, "latest")
		return h
	}, execReplica)
}

func execReplica(h RH, rec *pbt.Rec) error {
	x, err := rig.StartExec("nodeexec")
	if err != nil {
		return unsettled("executor: %v", err)
	}
	c, err := rig.NewCluster(x, 3, xp.NodeOpts{TimeoutMs: 300, SnapshotThreshold: 1 << 30, TrailingLogs: 0})
	if err != nil {
		x.Kill()
		return unsettled("cluster boot: %v", err)
	}
	defer func() { c.X.Kill() }()
	dead := func(err error) bool { _, ok := err.(*rig.Death); return ok }
	seq := 0
	add := func(sizes []int, phase string) error {
		for _, k := range sizes {
			var es []string
			for j := 0; j < k; j++ {
				es = append(es, fmt.Sprintf("rb-%d", seq))
				seq++
			}
			if _, err := c.Add(es, false); err != nil {
				if dead(err) {
					return fmt.Errorf("%s: the process holding the replicas died: %v", phase, err)
				}
				return unsettled("%s add: %v", phase, err)
			}
		}
		return nil
	}
	if err := add(h.Before, "before"); err != nil {
		return err
	}
	if _, err := c.Quiesce(60 * time.Second); err != nil {
		return unsettled("initial quiescence: %v", err)
	}
	l, err := c.Leader("", 20*time.Second)
	if err != nil {
		return unsettled("%v", err)
	}
	var fs []string
	for nm := range c.Live {
		if nm != l.Name {
			fs = append(fs, nm)
		}
	}
	sort.Strings(fs)
	xname, other := fs[0], fs[1]
	if err := c.Stop(xname); err != nil {
		return unsettled("stop: %v", err)
	}
	if err := add(h.While, "while the follower is down"); err != nil {
		return err
	}
	for nm, n := range c.Live {
		r, err := n.Simple("node-force-snapshot", 0, "")
		if err != nil || r.Err != "" {
			return unsettled("snapshot on %s: %v %v", nm, err, r)
		}
	}
	restored := xname
	if h.NewNode {
		name, err := c.StartNew()
		if err != nil {
			if dead(err) {
				return fmt.Errorf("a brand-new node joining after compaction killed the process: %v", err)
			}
			return unsettled("new node: %v", err)
		}
		restored = name
	} else if err := c.Restart(xname); err != nil {
		if dead(err) {
			return fmt.Errorf("restarting the follower that missed compacted entries killed the process: %v", err)
		}
		return unsettled("restart: %v", err)
	}
	if _, err := c.Quiesce(60 * time.Second); err != nil {
		return unsettled("quiescence after the state transfer: %v", err)
	}
	cur, err := c.Leader("", 20*time.Second)
	if err != nil {
		return unsettled("%v", err)
	}
	on := restored
	switch h.On {
	case "leader":
		on = cur.Name
	case "other":
		on = other
		if c.Live[on] == nil || on == cur.Name {
			on = restored
		}
	}
	n := c.Live[on]
	if n == nil {
		return unsettled("replica %s is not running", on)
	}
	r, err := n.Simple("node-backup", 0, "")
	if err != nil {
		if dead(err) {
			return fmt.Errorf("CreateBackup on replica %s killed the process: %v", on, err)
		}
		return unsettled("backup: %v", err)
	}
	if r.Err != "" {
		return fmt.Errorf("CreateBackup on replica %s failed: %s", on, r.Err)
	}
	m := c.AckedModel()
	b := backup{id: 1, version: uint64(m.Len() - 1), latest: h.Latest}
	if err := add(h.After, "after the backup"); err != nil {
		return err
	}
	m = c.AckedModel()
	what := fmt.Sprintf("backup taken at version %d on replica %s", b.version, on)
	if on == restored {
		what += " (which had just received its state by transfer from the leader)"
		rec.Class("backup-on-state-transferred-replica", 1)
	} else {
		rec.Class("backup-on-"+h.On, 1)
	}
	if err := restoreAndCheck(n, m, b, fmt.Sprintf("%s/%s", c.Dir, on), 1, rec); err != nil {
		if u, ok := err.(*pbt.Unsettled); ok {
			return u
		}
		return fmt.Errorf("%s, log now at %d: %v", what, m.Len()-1, err)
	}
	rec.Case(h, on == restored)
	rec.Sample(len(h.While), h)
	return nil
}
