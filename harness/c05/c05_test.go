// C05 — versions are assigned densely, in order, exactly once.
package c05

import (
	"bytes"
	"fmt"
	"testing"

	"pgregory.net/rapid"

	"verif/gen"
	"verif/pbt"
	"verif/refmodel"
	"verif/rig"
)

// ---------------------------------------------------------- tier 1: balloon

const ruleBalloon = "tier 1 (balloon, in-process): rapid-drawn histories of Add / AddBulk(m) with queries and restarts in between; the k-th accepted event must get version k-1, a bulk consecutive versions in request order, each snapshot the digest of its own event, and every proof's CurrentVersion = accepted-1. Non-trivial: >=1 bulk of size>=2 and >=1 restart between two insertions. distinct = FNV-64 of the history."

func TestBalloonDense(t *testing.T) {
	rec := pbt.NewRec("C05", "TestBalloonDense", ruleBalloon)
	pbt.Run(t, rec, func(rt *rapid.T) rig.LogHistory {
		return rig.DrawLog(rt, pbt.Scale(120, 600), rapid.IntRange(0, 3).Draw(rt, "distinct") != 0, true)
	}, execBalloon)
}

func execBalloon(h rig.LogHistory, rec *pbt.Rec) error {
	cls := h.Classes()
	bulk, restart := false, false
	for _, c := range cls {
		bulk = bulk || c == "bulk>=2"
		restart = restart || c == "restart"
	}
	rec.Case(h, bulk && restart, cls...)
	rec.Sample(len(h.Digests), h)
	b, err := rig.NewBPlus()
	if err != nil {
		return err
	}
	ds := h.Ds()
	rs := map[int]bool{}
	for _, r := range h.Restarts {
		rs[r] = true
	}
	accepted := 0
	off := 0
	for ci, c := range h.Calls {
		if rs[ci] {
			if err := b.Restart(); err != nil {
				return &pbt.Unsettled{Why: "restart failed: " + err.Error()}
			}
		}
		part := ds[off : off+c.N]
		off += c.N
		snaps, err := b.Apply(c.Bulk, part)
		if err != nil {
			return &pbt.Unsettled{Why: err.Error()}
		}
		if len(snaps) != len(part) {
			return fmt.Errorf("call %d: %d snapshots for %d events", ci, len(snaps), len(part))
		}
		for i, s := range snaps {
			if s.Version != uint64(accepted+i) {
				return fmt.Errorf("call %d (%+v): event %d of the request got version %d; %d events were accepted before the call, so it must get %d", ci, c, i, s.Version, accepted, accepted+i)
			}
			if !bytes.Equal(s.EventDigest, part[i][:]) {
				return fmt.Errorf("call %d: snapshot of version %d carries the digest of another event", ci, s.Version)
			}
		}
		accepted += len(part)
		// current version reported by proofs
		for _, e := range []refmodel.D{part[0], ds[0]} {
			p, err := b.Bal.QueryDigestMembership(rig.Dg(e))
			if err != nil {
				return &pbt.Unsettled{Why: err.Error()}
			}
			if p.CurrentVersion != uint64(accepted-1) {
				return fmt.Errorf("after call %d a proof reports current version %d; %d events were accepted", ci, p.CurrentVersion, accepted)
			}
			p, err = b.Bal.QueryDigestMembershipConsistency(rig.Dg(e), uint64(accepted-1))
			if err == nil && p.CurrentVersion != uint64(accepted-1) {
				return fmt.Errorf("after call %d a versioned proof reports current version %d; %d events were accepted", ci, p.CurrentVersion, accepted)
			}
		}
		if b.Bal.Version() != uint64(accepted) {
			return fmt.Errorf("after call %d the log's next version is %d; %d events were accepted", ci, b.Bal.Version(), accepted)
		}
	}
	_ = gen.Hex
	return nil
}

// ------------------------------------------------------- tier 2: RaftNode

type NH struct {
	rig.NodeHistory
}

const ruleNode = "tier 2 (single RaftNode over RocksDB in executor children): rapid-drawn sequences of single / bulk adds, clean restarts, SIGKILL crash points before / after a store write and injected write faults (the store refuses the k-th write with an I/O error), each followed by restart and log replay, and forced raft snapshots; acknowledged versions must be dense and in order across all of them, a crashed in-flight entry must be applied exactly once, and proofs must report CurrentVersion = accepted-1. Non-trivial: >=1 bulk>=2 and >=1 restart or crash between two insertions. distinct = FNV-64 of the history."

func TestNodeDense(t *testing.T) {
	rec := pbt.NewRec("C05", "TestNodeDense", ruleNode)
	pbt.Run(t, rec, func(rt *rapid.T) NH {
		m := rapid.IntRange(2, pbt.Scale(7, 12)).Draw(rt, "calls")
		adds := rig.DrawAdds(rt, m, 6, "e")
		var h NH
		for i, a := range adds {
			switch rapid.IntRange(0, 5).Draw(rt, "between") {
			case 0:
				h.Steps = append(h.Steps, rig.Step{Op: "restart"})
			case 1:
				h.Steps = append(h.Steps, rig.Step{Op: "snapshot"})
				if rapid.Bool().Draw(rt, "then-restart") {
					h.Steps = append(h.Steps, rig.Step{Op: "restart"})
				}
			case 2:
				if i < m-1 {
					a = rig.Step{Op: "crash", Events: a.Events, Single: a.Single, Pos: rapid.SampledFrom([]string{"before", "after", "fail"}).Draw(rt, "pos")}
				}
			}
			h.Steps = append(h.Steps, a)
			if rapid.IntRange(0, 3).Draw(rt, "check") == 0 {
				h.Steps = append(h.Steps, rig.Step{Op: "check"})
			}
		}
		return h
	}, execNode)
}

func execNode(h NH, rec *pbt.Rec) error {
	bulk, fault, seenAdd, ntFault := false, false, false, false
	cls := map[string]bool{}
	for _, s := range h.Steps {
		if (s.Op == "add" || s.Op == "crash") && len(s.Events) >= 2 {
			bulk = true
		}
		if s.Op == "restart" || s.Op == "crash" {
			if seenAdd {
				fault = true
			}
			cls[s.Op] = true
		}
		if s.Op == "snapshot" {
			cls["snapshot"] = true
		}
		if s.Op == "add" {
			if fault {
				ntFault = true
			}
			seenAdd = true
		}
	}
	var cl []string
	for c := range cls {
		cl = append(cl, c)
	}
	rec.Case(h, bulk && ntFault, cl...)
	rec.Sample(len(h.Steps), h)
	st, _, err := rig.RunNodeHistory(h.NodeHistory, rig.Oracle{Dense: true}, "nodeexec")
	if st != nil {
		rec.Count("events", int64(st.Events))
		rec.Count("restarts", int64(st.Restarts))
		rec.Count("crashes", int64(st.Crashes))
	}
	return err
}
