package c05

import (
	"fmt"
	"sort"
	"testing"
	"time"

	"pgregory.net/rapid"

	"verif/pbt"
	"verif/rig"
	"verif/xp"
)

type CStep struct {
	Op     string   `json:"op"` // add | stop | restart | transfer
	Events []string `json:"events,omitempty"`
	Single bool     `json:"single,omitempty"`
	K      int      `json:"k,omitempty"`
}

type CH struct {
	Steps []CStep `json:"steps"`
}

const ruleCluster = "tier 3 (3-node cluster in one executor child): rapid-drawn sequences of single / bulk adds on whoever leads, interleaved with follower stop / restart and leadership transfers; every acknowledged insertion must carry exactly the next versions (dense, in request order, across leader changes), carry its own event digests, and at the end every replica must report version = accepted. An insertion whose outcome is indeterminate (leadership lost mid-flight) makes the case inconclusive. Non-trivial: >=1 bulk>=2 and a leadership transfer or follower restart between two acknowledged insertions. distinct = FNV-64 of the sequence."

func TestClusterDense(t *testing.T) {
	rec := pbt.NewRec("C05", "TestClusterDense", ruleCluster, "no network partitions are generated")
	pbt.Run(t, rec, func(rt *rapid.T) CH {
		var h CH
		seq, stopped := 0, false
		for i, n := 0, rapid.IntRange(6, pbt.Scale(14, 30)).Draw(rt, "nsteps"); i < n; i++ {
			ops := []string{"add", "add", "add", "transfer"}
			if stopped {
				ops = append(ops, "restart")
			} else {
				ops = append(ops, "stop")
			}
			switch op := rapid.SampledFrom(ops).Draw(rt, "op"); op {
			case "add":
				k, single := 1, rapid.Bool().Draw(rt, "single")
				if !single {
					k = rapid.IntRange(1, 6).Draw(rt, "bulk")
				}
				var es []string
				for j := 0; j < k; j++ {
					es = append(es, fmt.Sprintf("d-%d", seq))
					seq++
				}
				h.Steps = append(h.Steps, CStep{Op: "add", Events: es, Single: single})
			case "stop":
				stopped = true
				h.Steps = append(h.Steps, CStep{Op: "stop", K: rapid.IntRange(0, 1).Draw(rt, "k")})
			case "restart":
				stopped = false
				h.Steps = append(h.Steps, CStep{Op: "restart"})
			default:
				h.Steps = append(h.Steps, CStep{Op: op})
			}
		}
		return h
	}, execCluster)
}

func execCluster(h CH, rec *pbt.Rec) error {
	un := func(f string, a ...interface{}) error { return &pbt.Unsettled{Why: fmt.Sprintf(f, a...)} }
	x, err := rig.StartExec("nodeexec")
	if err != nil {
		return un("executor: %v", err)
	}
	defer x.Kill()
	c, err := rig.NewCluster(x, 3, xp.NodeOpts{TimeoutMs: 300, SnapshotThreshold: 1 << 30, TrailingLogs: 1 << 20})
	if err != nil {
		return un("cluster boot: %v", err)
	}
	stopped := ""
	bulk, fault, seenAck, nt := false, false, false, false
	for si, s := range h.Steps {
		switch s.Op {
		case "add":
			before := c.Acked.Len()
			snaps, err := c.Add(s.Events, s.Single)
			if err != nil {
				return un("step %d add: %v", si, err)
			}
			if len(snaps) != len(s.Events) {
				return fmt.Errorf("step %d: %d snapshots for %d events", si, len(snaps), len(s.Events))
			}
			for i, sn := range snaps {
				if sn.Version != uint64(before+i) {
					return fmt.Errorf("step %d: event %d of the request got version %d; %d events had been accepted by the cluster, so it must get %d", si, i, sn.Version, before, before+i)
				}
				if string(sn.Event) != string(c.Acked.Events[before+i][:]) {
					return fmt.Errorf("step %d: snapshot of version %d carries the digest of another event", si, sn.Version)
				}
			}
			if len(s.Events) >= 2 {
				bulk = true
			}
			if fault && seenAck {
				nt = true
			}
			seenAck = true
		case "stop":
			if stopped != "" {
				continue
			}
			l, err := c.Leader("", 20*time.Second)
			if err != nil {
				return un("%v", err)
			}
			var fs []string
			for nm := range c.Live {
				if nm != l.Name {
					fs = append(fs, nm)
				}
			}
			sort.Strings(fs)
			stopped = fs[s.K%len(fs)]
			if err := c.Stop(stopped); err != nil {
				return un("stop: %v", err)
			}
		case "restart":
			if stopped == "" {
				continue
			}
			if err := c.Restart(stopped); err != nil {
				return un("restart: %v", err)
			}
			stopped = ""
			fault = true
			rec.Class("follower-restart", 1)
		case "transfer":
			if _, _, err := c.Transfer(); err != nil {
				return un("transfer: %v", err)
			}
			fault = true
			rec.Class("leader-transfer", 1)
		}
	}
	if stopped != "" {
		if err := c.Restart(stopped); err != nil {
			return un("final restart: %v", err)
		}
	}
	states, err := c.Quiesce(60 * time.Second)
	if err != nil {
		// a replica beyond the accepted count means versions were issued twice / skipped
		for nm, st := range states {
			if st.BalloonVersion > uint64(c.Acked.Len()) {
				return fmt.Errorf("replica %s is at version %d although the cluster acknowledged %d events", nm, st.BalloonVersion, c.Acked.Len())
			}
		}
		return un("quiescence: %v", err)
	}
	rec.Case(h, bulk && nt)
	rec.Count("events", int64(c.Acked.Len()))
	rec.Sample(len(h.Steps), h)
	return nil
}
