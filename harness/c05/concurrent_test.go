package c05

import (
	"bytes"
	"fmt"
	"sort"
	"testing"
	"time"

	"pgregory.net/rapid"

	"verif/pbt"
	"verif/refmodel"
	"verif/rig"
	"verif/xp"
)

// CCH is a set of clients inserting at the same time.
type CCH struct {
	Before  int   `json:"before"`  // sequential single adds first
	Clients int   `json:"clients"` // concurrent clients
	Calls   int   `json:"calls"`   // insertion calls per client
	Sizes   []int `json:"sizes"`   // events per call, cycled over (client, call)
	Restart bool  `json:"restart"` // clean restart before the final sweep
	Backups int   `json:"backups"` // backups taken (management API's CreateBackup) while the clients insert
}

const ruleConc = "tier 2b (concurrent clients): a single RaftNode over RocksDB in an executor child; after 0-5 sequential adds, 2-16 clients run at once, each making 1-12 insertion calls one after the other (drawn sizes: single Add or AddBulk of 2-5 or 150 events); every call's acknowledgement is collected; in half of the cases that start with a non-empty log an operator takes up to 10-40 backups (CreateBackup, what POST /backup calls) while the clients insert. Oracle: every acknowledged call got one snapshot per event, with consecutive versions in request order, each carrying the digest of ITS event; over all acknowledgements no version is issued twice and the versions are exactly 0..N-1 for N accepted events; re-applying the calls in the order of their versions to the reference model reproduces every history and hyper digest; afterwards (optionally after a clean restart) the node reports version N-1 and proves membership of sampled events against the reference snapshots. A call that fails makes the case inconclusive. Non-trivial: >=2 clients and >=1 bulk. distinct = FNV-64 of the case (schedules differ)."

var concRun int

func TestConcurrentClients(t *testing.T) {
	rec := pbt.NewRec("C05", "TestConcurrentClients", ruleConc)
	pbt.Run(t, rec, func(rt *rapid.T) CCH {
		h := CCH{Before: rapid.IntRange(0, 5).Draw(rt, "before"), Clients: rapid.IntRange(2, 16).Draw(rt, "clients"), Calls: rapid.IntRange(1, 12).Draw(rt, "calls"), Restart: rapid.IntRange(0, 3).Draw(rt, "restart") == 0}
		if h.Before > 0 {
			h.Backups = rapid.SampledFrom([]int{0, 0, 10, 40}).Draw(rt, "backups")
		}
		for i, n := 0, rapid.IntRange(1, 6).Draw(rt, "nsizes"); i < n; i++ {
			h.Sizes = append(h.Sizes, rapid.SampledFrom([]int{1, 1, 1, 2, 3, 5, 5, 150}).Draw(rt, "size"))
		}
		return h
	}, execConc)
}

func execConc(h CCH, rec *pbt.Rec) error {
	concRun++
	unsettled := func(f string, a ...interface{}) error { return &pbt.Unsettled{Why: fmt.Sprintf(f, a...)} }
	x, err := rig.StartExec("nodeexec")
	if err != nil {
		return unsettled("executor: %v", err)
	}
	defer func() { x.Kill() }()
	dir := rig.WorkDir("c05c")
	opts := xp.NodeOpts{Dir: dir, Bootstrap: true, TimeoutMs: 150, SnapshotThreshold: 1 << 30}
	n, err := rig.OpenNode(x, "n", opts)
	if err != nil {
		return unsettled("open: %v", err)
	}
	if err := n.WaitLeader(20 * time.Second); err != nil {
		return unsettled("%v", err)
	}
	type call struct {
		events [][]byte
		snaps  []xp.Snap
		who    string
	}
	var calls []call
	for i := 0; i < h.Before; i++ {
		ev := []byte(fmt.Sprintf("seq-%d", i))
		res, err := n.Add([][]byte{ev}, true)
		if err != nil || res.Err != "" {
			return unsettled("sequential add: %v %v", err, res)
		}
		calls = append(calls, call{[][]byte{ev}, res.Snaps, fmt.Sprintf("sequential add %d", i)})
	}
	var sizes []string
	bulk := false
	for _, s := range h.Sizes {
		sizes = append(sizes, fmt.Sprint(s))
		if s > 1 {
			bulk = true
		}
	}
	r, err := x.Call(&xp.Req{Op: "node-add-concurrent", Name: "n", A: uint64(h.Clients), B: uint64(h.Calls), C: uint64(h.Backups), Args: sizes}, 90*time.Second)
	if err != nil {
		return fmt.Errorf("%d clients inserting at once killed the node's process: %v", h.Clients, err)
	}
	if r.Err != "" {
		return unsettled("concurrent adds: %s", r.Err)
	}
	for _, a := range r.Acks {
		if a.Err != "" {
			return unsettled("client %d call %d failed: %s", a.Client, a.Seq, a.Err)
		}
		calls = append(calls, call{a.Events, a.Snaps, fmt.Sprintf("client %d call %d (%d clients at once)", a.Client, a.Seq, h.Clients)})
	}
	// per acknowledgement: one snapshot per event, consecutive versions, own digests
	total := 0
	owner := map[uint64]string{}
	for _, c := range calls {
		if len(c.snaps) != len(c.events) {
			return fmt.Errorf("%s: %d snapshots acknowledged for %d events", c.who, len(c.snaps), len(c.events))
		}
		for j, s := range c.snaps {
			d := refmodel.EventDigest(c.events[j])
			if !bytes.Equal(s.Event, d[:]) {
				return fmt.Errorf("%s: the snapshot acknowledged for event %d (%q) carries the digest %x…, which is not that event's digest %x… (it got version %d)", c.who, j, c.events[j], s.Event[:4], d[:4], s.Version)
			}
			if j > 0 && s.Version != c.snaps[j-1].Version+1 {
				return fmt.Errorf("%s: events %d and %d of one bulk got versions %d and %d (not consecutive)", c.who, j-1, j, c.snaps[j-1].Version, s.Version)
			}
			if prev, dup := owner[s.Version]; dup {
				return fmt.Errorf("version %d was acknowledged twice: to %s and to %s", s.Version, prev, c.who)
			}
			owner[s.Version] = c.who
		}
		total += len(c.events)
	}
	for v := 0; v < total; v++ {
		if _, ok := owner[uint64(v)]; !ok {
			return fmt.Errorf("%d events were acknowledged but version %d was handed to nobody (versions must be exactly 0..%d)", total, v, total-1)
		}
	}
	// the order the log chose, replayed on the reference model
	sort.Slice(calls, func(i, j int) bool { return calls[i].snaps[0].Version < calls[j].snaps[0].Version })
	m := refmodel.NewLog()
	for _, c := range calls {
		var ds []refmodel.D
		for _, e := range c.events {
			ds = append(ds, refmodel.EventDigest(e))
		}
		want := m.AddBulk(ds)
		if err := rig.CheckAck(c.snaps, want); err != nil {
			return fmt.Errorf("%s: %v", c.who, err)
		}
	}
	if h.Restart {
		if _, err := n.Close(true); err != nil {
			return unsettled("close: %v", err)
		}
		x.Exit()
		if x, err = rig.StartExec("nodeexec"); err != nil {
			return unsettled("executor: %v", err)
		}
		if n, err = rig.OpenNode(x, "n", opts); err != nil {
			return fmt.Errorf("the node does not reopen after %d concurrent clients: %v", h.Clients, err)
		}
		if err := n.WaitLeader(20 * time.Second); err != nil {
			return unsettled("%v", err)
		}
	}
	st, err := n.WaitVersion(uint64(total), 30*time.Second)
	if err != nil {
		return fmt.Errorf("after %d acknowledged events the node does not report version %d: %v (%+v)", total, total-1, err, st)
	}
	k, err := rig.CheckNode(n, m, 12)
	rec.Count("proofs_verified", int64(k))
	if err != nil {
		return err
	}
	rec.Count("acknowledged_calls", int64(len(calls)))
	if h.Backups > 0 {
		rec.Class("backups-during-insertions", 1)
	}
	rec.Case([]interface{}{h, concRun}, h.Clients >= 2 && bulk)
	rec.Sample(h.Clients*h.Calls, h)
	return nil
}
