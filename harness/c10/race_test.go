package c10

import (
	"fmt"
	"strings"
	"testing"
	"time"

	"pgregory.net/rapid"

	"verif/pbt"
	"verif/rig"
	"verif/xp"
)

type RH struct {
	Adders   int `json:"adders"`
	Adds     int `json:"adds"`
	Bulk     int `json:"bulk"`
	Queriers int `json:"queriers"`
	Pad      int `json:"pad,omitempty"` // extra bytes per event
}

const ruleRace = "race tier: a single-node RaftNode in an executor child built with the Go race detector; drawn numbers of concurrent adder goroutines (AddBulk of drawn size) and querier goroutines (QueryMembership, QueryMembershipConsistency, QueryConsistency on events already acknowledged) use the public API at once (one case in three with events of 64-256 KiB). Oracle: the stress completes (a wedge between readers and the apply path shows as a call that never returns), no query or add panics, and the race detector reports no data race whose stack contains a github.com/bbva/qed/ frame. evaluations = stress runs. Non-trivial: >=2 adders or >=1 querier ran concurrently with an adder; distinct = FNV-64 of the parameters (+ run index)."

func TestRaceStress(t *testing.T) {
	rec := pbt.NewRec("C10", "TestRaceStress", ruleRace, "the race detector only sees schedules that were executed")
	i := 0
	pbt.Run(t, rec, func(rt *rapid.T) RH {
		h := RH{Adders: rapid.IntRange(1, 4).Draw(rt, "adders"), Adds: rapid.IntRange(5, pbt.Scale(25, 80)).Draw(rt, "adds"), Bulk: rapid.IntRange(1, 6).Draw(rt, "bulk"), Queriers: rapid.IntRange(1, 6).Draw(rt, "queriers")}
		// one case in three uses big events (fewer of them): event-based queries then spend
		// milliseconds, not microseconds, between entering the node and reaching the trees
		if rapid.IntRange(0, 2).Draw(rt, "big-events") == 0 {
			h.Pad = rapid.SampledFrom([]int{65536, 262144}).Draw(rt, "pad")
			if h.Adds > 12 {
				h.Adds = 12
			}
			if h.Bulk > 2 {
				h.Bulk = 2
			}
		}
		return h
	}, func(h RH, rec *pbt.Rec) error {
		i++
		x, err := rig.StartExec("nodeexec.race")
		if err != nil {
			return unsettled("executor: %v", err)
		}
		defer x.Kill()
		n, err := rig.OpenNode(x, "n", xp.NodeOpts{Dir: rig.WorkDir("c10r"), Bootstrap: true, TimeoutMs: 400, SnapshotThreshold: 1 << 30})
		if err != nil {
			return unsettled("open: %v", err)
		}
		if err := n.WaitLeader(30 * time.Second); err != nil {
			return unsettled("%v", err)
		}
		r, err := x.Call(&xp.Req{Op: "node-stress", Name: "n", A: uint64(h.Adders), B: uint64(h.Adds), C: uint64(h.Bulk), N: uint64(h.Queriers), Args: []string{fmt.Sprintf("pad=%d", h.Pad)}}, 80*time.Second)
		if err != nil {
			if d, ok := err.(*rig.Death); ok && d.Timeout {
				return fmt.Errorf("concurrent use of the public API (%d adders x %d insertions, %d queriers) has not returned after 80 s (normally seconds): readers and the apply path are wedged: %v", h.Adders, h.Adds, h.Queriers, err)
			}
			return fmt.Errorf("the node died under concurrent use of the public API: %v", err)
		}
		rec.Case([]interface{}{h, i}, true)
		rec.Count("api_calls", int64(r.Emitted))
		rec.Sample(h.Adds, h)
		if r.Bad > 0 {
			return fmt.Errorf("%d API calls panicked under concurrent use", r.Bad)
		}
		n.Close(true)
		x.Exit()
		if rc := qedRaces(x.Stderr()); len(rc) > 0 {
			return fmt.Errorf("data race in QED code under concurrent use of the public API: %s", rc[0])
		}
		return nil
	})
}

// qedRaces extracts the race reports that involve QED frames.
func qedRaces(stderr string) []string {
	var out []string
	blocks := strings.Split(stderr, "WARNING: DATA RACE")
	for _, b := range blocks[1:] {
		if end := strings.Index(b, "=================="); end >= 0 {
			b = b[:end]
		}
		if !strings.Contains(b, "github.com/bbva/qed/") {
			continue
		}
		var fr []string
		for _, l := range strings.Split(b, "\n") {
			l = strings.TrimSpace(l)
			if strings.HasPrefix(l, "github.com/bbva/qed/") || strings.HasPrefix(l, "Previous") || strings.HasPrefix(l, "Write at") || strings.HasPrefix(l, "Read at") {
				fr = append(fr, l)
			}
			if len(fr) > 8 {
				break
			}
		}
		out = append(out, strings.Join(fr, " | "))
	}
	return out
}
