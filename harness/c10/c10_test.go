// C10 — queries concurrent with insertions are answered from a consistent
// state.
package c10

import (
	"fmt"
	"regexp"
	"strings"
	"testing"
	"time"

	"pgregory.net/rapid"

	"verif/pbt"
	"verif/refmodel"
	"verif/rig"
	"verif/xp"
)

// Q is one query issued while the apply is parked. Event / versions are
// indexes into the sequence (prefix events first, then the in-flight bulk).
type Q struct {
	Kind string `json:"kind"` // member | member-latest | incr
	Ev   int    `json:"ev"`
	V    int    `json:"v"`
	I, J int
}

type H struct {
	Prefix   [][]string `json:"prefix"`   // acknowledged insertions before the gated one
	InFlight []string   `json:"inflight"` // the bulk whose store write is parked
	Queries  []Q        `json:"queries"`
}

const rule = "a single-node RaftNode over a gating store wrapper (executor child): after a drawn prefix of insertions, one AddBulk is started and parked inside its store write (trees advanced in memory, nothing persisted); a drawn set of queries is started concurrently from other goroutines and the write is released 40 ms later (membership at old versions, at in-flight versions, latest; consistency below / at the in-flight versions; old and in-flight events); the write is released, the in-flight snapshots collected, and everything is queried again. Oracle: every query returns within 10 s with an error or with a proof that verifies against the snapshots issued for the versions it names (for in-flight versions: the snapshots issued when the insertion completes); a recovered panic, a hang, or a proof that verifies against nothing is a violation. Queries in the two classes of known finding F-C10-1 are tolerated only with that finding's exact signature. Non-trivial: >=1 query was issued while the apply was parked. distinct = FNV-64 of the history."

func TestGatedApply(t *testing.T) {
	rec := pbt.NewRec("C10", "TestGatedApply", rule,
		"the gate gives the interleaving the property singles out (between computing an insertion and persisting it) and its neighbours, not all interleavings",
		"event digests are SHA-256 of textual events: in-flight and old events do not share long prefixes")
	pbt.Run(t, rec, func(rt *rapid.T) H {
		var h H
		seq := 0
		ev := func() string { seq++; return fmt.Sprintf("c10-%d", seq) }
		for i, k := 0, rapid.IntRange(1, 5).Draw(rt, "prefix"); i < k; i++ {
			var b []string
			for j, m := 0, rapid.IntRange(1, 4).Draw(rt, "bulk"); j < m; j++ {
				b = append(b, ev())
			}
			h.Prefix = append(h.Prefix, b)
		}
		for j, m := 0, rapid.IntRange(1, 5).Draw(rt, "inflight"); j < m; j++ {
			h.InFlight = append(h.InFlight, ev())
		}
		n := seq
		for i, k := 0, rapid.IntRange(1, 12).Draw(rt, "nq"); i < k; i++ {
			q := Q{Kind: rapid.SampledFrom([]string{"member", "member", "member-latest", "incr"}).Draw(rt, "kind")}
			q.Ev = rapid.IntRange(0, n-1).Draw(rt, "ev")
			q.V = rapid.IntRange(0, n-1).Draw(rt, "v")
			q.I = rapid.IntRange(0, n-1).Draw(rt, "i")
			q.J = rapid.IntRange(q.I, n-1).Draw(rt, "j")
			h.Queries = append(h.Queries, q)
		}
		return h
	}, exec)
}

func unsettled(f string, a ...interface{}) error { return &pbt.Unsettled{Why: fmt.Sprintf(f, a...)} }

var reCached = regexp.MustCompile(`There should be a cached element at position`)

func exec(h H, rec *pbt.Rec) error {
	x, err := rig.StartExec("nodeexec")
	if err != nil {
		return unsettled("executor: %v", err)
	}
	defer x.Kill()
	n, err := rig.OpenNode(x, "n", xp.NodeOpts{Dir: rig.WorkDir("c10"), Bootstrap: true, TimeoutMs: 150, SnapshotThreshold: 1 << 30, Plan: xp.Plan{Gate: len(h.Prefix) + 1}})
	if err != nil {
		return unsettled("open: %v", err)
	}
	if err := n.WaitLeader(20 * time.Second); err != nil {
		return unsettled("%v", err)
	}
	m := refmodel.NewLog()
	var all []string
	for _, b := range h.Prefix {
		res, err := n.Add(bytesOf(b), false)
		if err != nil || res.Err != "" {
			return unsettled("prefix add: %v %v", err, res)
		}
		m.AddBulk(digestsOf(b))
		all = append(all, b...)
	}
	old := m.Len() // first in-flight version
	all = append(all, h.InFlight...)
	// full model (what the log is once the in-flight bulk completes)
	full := refmodel.NewLog()
	for _, b := range h.Prefix {
		full.AddBulk(digestsOf(b))
	}
	full.AddBulk(digestsOf(h.InFlight))

	if _, err := x.Call(&xp.Req{Op: "node-add-async", Name: "n", Events: bytesOf(h.InFlight)}, 10*time.Second); err != nil {
		return unsettled("async add: %v", err)
	}
	parked := false
	for i := 0; i < 400; i++ {
		r, err := x.Call(&xp.Req{Op: "node-gate-status", Name: "n"}, 10*time.Second)
		if err != nil {
			return unsettled("gate: %v", err)
		}
		if r.Parked {
			parked = true
			break
		}
		time.Sleep(10 * time.Millisecond)
	}
	if !parked {
		return unsettled("the apply never reached the gate")
	}
	// queries in the window
	var qs []xp.Query
	for _, q := range h.Queries {
		switch q.Kind {
		case "member":
			qs = append(qs, xp.Query{Kind: "member", Digest: dg(all[q.Ev%len(all)]), Version: uint64(q.V % len(all))})
		case "member-latest":
			qs = append(qs, xp.Query{Kind: "member-latest", Digest: dg(all[q.Ev%len(all)])})
		default:
			qs = append(qs, xp.Query{Kind: "incr", Start: uint64(q.I % len(all)), End: uint64(q.J % len(all))})
		}
	}
	// The queries start while the write is parked; the write is released a
	// moment later (an implementation may make queries wait for the write,
	// so they are only required to answer within 10 s of the release).
	if _, err := x.Call(&xp.Req{Op: "node-query-async", Name: "n", Queries: qs, N: 10000}, 10*time.Second); err != nil {
		return unsettled("async queries: %v", err)
	}
	time.Sleep(40 * time.Millisecond)
	if _, err := x.Call(&xp.Req{Op: "node-gate-release", Name: "n"}, 10*time.Second); err != nil {
		return unsettled("release: %v", err)
	}
	qr, err := x.Call(&xp.Req{Op: "node-query-await", Name: "n"}, 40*time.Second)
	if err != nil {
		return fmt.Errorf("the node died while answering queries issued during the apply window: %v", err)
	}
	as := qr.Answers
	known := pbt.Known("F-C10-1")
	for i, a := range as {
		q := h.Queries[i]
		if err := judge(q, qs[i], a, full, old, len(all), known, rec); err != nil {
			return fmt.Errorf("query %d %+v issued while the insertion of versions %d..%d was between computing and persisting: %v", i, q, old, len(all)-1, err)
		}
	}
	var done *xp.Resp
	for i := 0; i < 100; i++ {
		r, err := x.Call(&xp.Req{Op: "node-add-await", Name: "n", N: 200}, 30*time.Second)
		if err != nil {
			return fmt.Errorf("the node died after the insertion was released: %v", err)
		}
		if r.Done {
			done = r
			break
		}
	}
	if done == nil {
		return unsettled("insertion never completed after release")
	}
	if done.Err != "" {
		return unsettled("released insertion failed: %s", done.Err)
	}
	if err := rig.CheckAck(done.Snaps, full.Snapshots[old:]); err != nil {
		return unsettled("in-flight snapshots differ from the reference (C04/C05 territory): %v", err)
	}
	// the same queries after release must all be answerable and verify
	as, err = n.Query(qs)
	if err != nil {
		return fmt.Errorf("the node died while answering queries after the insertion completed: %v", err)
	}
	for i, a := range as {
		if err := judge(h.Queries[i], qs[i], a, full, len(all), len(all), false, nil); err != nil {
			return fmt.Errorf("query %d %+v after the insertion completed: %v", i, h.Queries[i], err)
		}
	}
	rec.Case(h, len(h.Queries) > 0)
	rec.Count("queries_in_window", int64(len(qs)))
	rec.Sample(len(h.Queries), h)
	return nil
}

// judge applies the oracle to one answer. old = number of events whose
// insertion had completed when the query ran; n = events incl. in-flight.
func judge(q Q, xq xp.Query, a xp.Answer, full *refmodel.Log, old, n int, known bool, rec *pbt.Rec) error {
	inWindow := old < n
	// does the query touch in-flight state? (the two classes of F-C10-1)
	touches := false
	evIdx := q.Ev % n
	switch q.Kind {
	case "member":
		touches = inWindow // the hyper proof and CurrentVersion always reflect the advanced tree
		_ = evIdx
	case "member-latest":
		touches = inWindow
	default:
		touches = inWindow && int(xq.End) >= old
	}
	if a.Timeout {
		return fmt.Errorf("no answer within 10 s")
	}
	if a.Panic != "" {
		if known && touches && reCached.MatchString(a.Panic) && (q.Kind != "member" || int(xq.Version) >= old || true) {
			if rec != nil {
				rec.Count("excluded_by_known_finding:F-C10-1/panic", 1)
			}
			return nil
		}
		return fmt.Errorf("the query failed internally (recovered panic): %s", a.Panic)
	}
	if a.Err != "" {
		return nil // a clean error
	}
	switch q.Kind {
	case "member", "member-latest":
		mr, p, err := rig.DecodeMember(a)
		if err != nil {
			return err
		}
		e := refmodel.EventDigest([]byte(evName(q, n)))
		_ = e
		ed := toD(xq.Digest)
		if mr.CurrentVersion >= uint64(n) || mr.QueryVersion >= uint64(n) {
			return fmt.Errorf("answer names versions (query %d, current %d) the log never issued", mr.QueryVersion, mr.CurrentVersion)
		}
		if !mr.Exists {
			inserted := full.Hyper[ed]
			if _, ok := full.Hyper[ed]; ok && inserted <= mr.CurrentVersion {
				// claims absence of an event that is present at the current version it names
				if known && inWindow && int(inserted) >= old {
					if rec != nil {
						rec.Count("excluded_by_known_finding:F-C10-1/absent", 1)
					}
					return nil
				}
				return fmt.Errorf("answers Exists=false for event inserted at version %d while naming current version %d (state from before and after the insertion mixed)", inserted, mr.CurrentVersion)
			}
			return nil
		}
		snap := rig.SnapOf(full, mr.QueryVersion, mr.CurrentVersion)
		if !p.DigestVerify(xq.Digest, snap) {
			if known && touches {
				// mixed state: proof verifies against nothing (same root cause); only inside the window
				if rec != nil {
					rec.Count("excluded_by_known_finding:F-C10-1/unverifiable", 1)
				}
				return nil
			}
			return fmt.Errorf("proof (query %d, current %d, actual %d) verifies against no issued snapshots", mr.QueryVersion, mr.CurrentVersion, mr.ActualVersion)
		}
	default:
		if err := rig.VerifyIncr(a, full, xq.Start, xq.End); err != nil {
			if known && touches && strings.Contains(err.Error(), "does not verify") {
				if rec != nil {
					rec.Count("excluded_by_known_finding:F-C10-1/unverifiable", 1)
				}
				return nil
			}
			return err
		}
	}
	return nil
}

func evName(q Q, n int) string { return "" }

func toD(b []byte) (d refmodel.D) { copy(d[:], b); return }

func dg(ev string) []byte { d := refmodel.EventDigest([]byte(ev)); return d[:] }

func bytesOf(ss []string) [][]byte {
	out := make([][]byte, len(ss))
	for i, s := range ss {
		out[i] = []byte(s)
	}
	return out
}

func digestsOf(ss []string) []refmodel.D {
	out := make([]refmodel.D, len(ss))
	for i, s := range ss {
		out[i] = refmodel.EventDigest([]byte(s))
	}
	return out
}
