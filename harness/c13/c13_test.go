// C13 — proofs and snapshots survive the wire format unchanged.
package c13

import (
	"bytes"
	"encoding/json"
	"fmt"
	"net"
	"reflect"
	"testing"

	"github.com/bbva/qed/balloon"
	"github.com/bbva/qed/balloon/history"
	"github.com/bbva/qed/consensus"
	"github.com/bbva/qed/crypto/hashing"
	"github.com/bbva/qed/gossip"
	"github.com/bbva/qed/protocol"
	"pgregory.net/rapid"

	"verif/gen"
	"verif/pbt"
	"verif/refmodel"
	"verif/rig"
)

type H struct {
	rig.LogHistory
	Pairs [][2]uint64 `json:"pairs,omitempty"`
	Wrong string      `json:"wrong"` // a digest that is not in the log
}

const ruleProofs = "rapid-drawn logs (n up to 600 so that audit paths carry indexes >= 256); every genuine membership answer (e,q) incl. q = current+1, current+7, 2^63-1 (which the server clamps) and every incremental answer (i,j) (all pairs when n<=40, boundary+drawn above) is encoded with ToMembershipResult/ToIncrementalResponse + json.Marshal and decoded with json.Unmarshal + ToBalloonProof/ToIncrementalProof; every field must be preserved and the decoded proof must give the same verdict as the original on the genuine (digest, snapshot) and on wrong digests / wrong snapshots. Non-trivial: the case verified an answer with q > version(e) or an audit-path index >= 256. distinct = FNV-64 of the history."

func TestProofRoundTrip(t *testing.T) {
	rec := pbt.NewRec("C13", "TestProofRoundTrip", ruleProofs)
	maxN := pbt.Scale(300, 1500)
	pbt.Run(t, rec, func(rt *rapid.T) H {
		h := H{LogHistory: rig.DrawLog(rt, maxN, true, false)}
		if n := len(h.Digests); n > 40 {
			h.Pairs, _ = gen.VersionPairs(rt, n, 0, 150)
		}
		var d refmodel.D
		copy(d[:], rapid.SliceOfN(rapid.Byte(), 32, 32).Draw(rt, "wrong"))
		h.Wrong = gen.Hex(d)
		return h
	}, execProofs)
}

func eqBytes(a, b []byte) bool { return bytes.Equal(a, b) } // nil == empty

func eqPathStr(a, b map[string]hashing.Digest) error {
	if len(a) != len(b) {
		return fmt.Errorf("%d entries became %d", len(a), len(b))
	}
	for k, v := range a {
		w, ok := b[k]
		if !ok {
			return fmt.Errorf("entry %q lost", k)
		}
		if !eqBytes(v, w) {
			return fmt.Errorf("entry %q changed", k)
		}
	}
	return nil
}

func eqPath(a, b history.AuditPath) error {
	if len(a) != len(b) {
		return fmt.Errorf("%d entries became %d", len(a), len(b))
	}
	for k, v := range a {
		w, ok := b[k]
		if !ok {
			return fmt.Errorf("entry %x lost", k)
		}
		if !eqBytes(v, w) {
			return fmt.Errorf("entry %x changed", k)
		}
	}
	return nil
}

func verdict(f func() bool) (r string) {
	defer func() {
		if p := recover(); p != nil {
			r = "panic"
		}
	}()
	if f() {
		return "true"
	}
	return "false"
}

func execProofs(h H, rec *pbt.Rec) error {
	b, m, err := h.Build(false)
	if err != nil {
		return err
	}
	ds := h.Ds()
	n := len(ds)
	cur := uint64(n - 1)
	wrongD := gen.UnHex(h.Wrong)
	pairs := h.Pairs
	if pairs == nil {
		for a := 0; a < n; a++ {
			for c := a; c < n; c++ {
				pairs = append(pairs, [2]uint64{uint64(a), uint64(c)})
			}
		}
	}
	// membership answers beyond the current version (clamped by the server)
	for _, e := range []uint64{0, cur / 2, cur} {
		for _, q := range []uint64{cur + 1, cur + 7, 1<<63 - 1} {
			pairs = append(pairs, [2]uint64{e, q})
		}
	}
	var nt, idx256 int64
	for _, pr := range pairs {
		ei, q := pr[0], pr[1]
		if ei >= uint64(n) {
			continue
		}
		e := ds[ei]
		p, err := b.Bal.QueryDigestMembershipConsistency(rig.Dg(e), q)
		if err != nil {
			return fmt.Errorf("membership(%d,%d): %v", ei, q, err)
		}
		mr := protocol.ToMembershipResult([]byte("key"), p)
		raw, err := json.Marshal(mr)
		if err != nil {
			return err
		}
		var back *protocol.MembershipResult
		if err := json.Unmarshal(raw, &back); err != nil {
			return fmt.Errorf("membership(%d,%d): decode: %v", ei, q, err)
		}
		tag := fmt.Sprintf("membership(e=%d,q=%d) on a log of %d", ei, q, n)
		if back.Exists != p.Exists || back.CurrentVersion != p.CurrentVersion || back.QueryVersion != p.QueryVersion ||
			back.ActualVersion != p.ActualVersion || !eqBytes(back.KeyDigest, p.KeyDigest) || !eqBytes(back.Key, []byte("key")) {
			return fmt.Errorf("%s: scalar fields changed on the wire: %+v", tag, back)
		}
		if err := eqPathStr(p.HyperProof.AuditPath, back.Hyper); err != nil {
			return fmt.Errorf("%s: hyper path: %v", tag, err)
		}
		dp := protocol.ToBalloonProof(back, hashing.NewSha256Hasher)
		if err := eqPath(p.HistoryProof.AuditPath, dp.HistoryProof.AuditPath); err != nil {
			return fmt.Errorf("%s: history path: %v", tag, err)
		}
		for k := range p.HistoryProof.AuditPath {
			if be64(k[:8]) >= 256 {
				idx256++
			}
		}
		if dp.Exists != p.Exists || dp.CurrentVersion != p.CurrentVersion || dp.QueryVersion != p.QueryVersion || dp.ActualVersion != p.ActualVersion {
			return fmt.Errorf("%s: decoded proof fields differ", tag)
		}
		// verdicts: the client picks snapshots by the versions the answer names
		qs := p.QueryVersion
		if qs > cur {
			qs = cur
		}
		good, _ := b.ClientSnapshot(qs, cur)
		other, _ := b.ClientSnapshot((qs+1)%uint64(n), cur)
		badHyper := &balloon.Snapshot{HistoryDigest: good.HistoryDigest, HyperDigest: b.Snaps[0].HistoryDigest}
		type chk struct {
			d refmodel.D
			s *balloon.Snapshot
		}
		for ci, c := range []chk{{e, good}, {wrongD, good}, {e, other}, {e, badHyper}, {ds[(ei+1)%uint64(n)], good}} {
			dg := rig.Dg(c.d)
			v1 := verdict(func() bool { return p.DigestVerify(dg, c.s) })
			v2 := verdict(func() bool { return dp.DigestVerify(dg, c.s) })
			if v1 != v2 {
				return fmt.Errorf("%s: verdict of the original proof is %s, of the decoded proof %s (check %d; answer names Query=%d Current=%d Actual=%d)", tag, v1, v2, ci, p.QueryVersion, p.CurrentVersion, p.ActualVersion)
			}
			if ci == 0 && v1 != "true" {
				return fmt.Errorf("%s: genuine answer does not verify (%s)", tag, v1)
			}
		}
		if q > m.Hyper[e] {
			nt++
		}
		// incremental answer for the same pair when it is a valid range
		if q < uint64(n) && ei <= q {
			ip, err := b.Bal.QueryConsistency(ei, q)
			if err != nil {
				return err
			}
			ir := protocol.ToIncrementalResponse(ip)
			raw, _ := json.Marshal(ir)
			var iback *protocol.IncrementalResponse
			if err := json.Unmarshal(raw, &iback); err != nil {
				return err
			}
			dip := protocol.ToIncrementalProof(iback, hashing.NewSha256Hasher)
			if dip.Start != ip.Start || dip.End != ip.End {
				return fmt.Errorf("incremental(%d,%d): versions changed on the wire", ei, q)
			}
			if err := eqPath(ip.AuditPath, dip.AuditPath); err != nil {
				return fmt.Errorf("incremental(%d,%d): %v", ei, q, err)
			}
			for ci, ss := range [][2]*balloon.Snapshot{{b.Snaps[ei], b.Snaps[q]}, {b.Snaps[q], b.Snaps[ei]}, {b.Snaps[(ei+1)%uint64(n)], b.Snaps[q]}, {b.Snaps[ei], b.Snaps[(q+1)%uint64(n)]}} {
				v1 := verdict(func() bool { return ip.Verify(ss[0], ss[1]) })
				v2 := verdict(func() bool { return dip.Verify(ss[0], ss[1]) })
				if v1 != v2 {
					return fmt.Errorf("incremental(%d,%d): original verdict %s, decoded %s (check %d)", ei, q, v1, v2, ci)
				}
			}
			rec.Count("incremental_roundtrips", 1)
		}
		rec.Count("membership_roundtrips", 1)
	}
	cls := h.Classes()
	if idx256 > 0 {
		cls = append(cls, "index>=256")
	}
	rec.Case(h, nt > 0 || idx256 > 0, cls...)
	rec.Sample(n, h)
	return nil
}

func be64(b []byte) uint64 {
	var x uint64
	for _, c := range b {
		x = x<<8 | uint64(c)
	}
	return x
}

// ------------------------------------------------------------- synthetic

type Entry struct {
	Index  uint64 `json:"i"`
	Height uint16 `json:"h"`
	Val    []byte `json:"v"`
}

type Snap struct {
	Ev, Hist, Hyper []byte
	Version         uint64
	Sig             []byte
}

type SH struct {
	Path    []Entry  `json:"path"`
	Snaps   []Snap   `json:"snaps"`
	Digests [][]byte `json:"digests"` // add-command payload
	U       []uint64 `json:"u"`       // four numbers for state / metadata / snapshot codecs
	Msg     struct {
		Kind    uint8
		TTL     int
		Payload []byte
		Peer    *struct {
			Name   string
			IP     []byte
			Port   uint16
			Role   string
			Status int32
		}
	} `json:"msg"`
}

const ruleSynth = "rapid-drawn values: audit paths with indexes anywhere in uint64 (biased to 0, 255/256, 2^32+-1, 2^63-1, 2^64-1) and heights 0..65535 through AuditPath.Serialize -> json -> ParseAuditPath; snapshots / signed snapshots / batches with arbitrary digests, versions and signatures through Encode/Decode; add-event commands, FSM state, version metadata and raft-snapshot bodies through their msgpack codecs (consensus hooks); gossip messages with arbitrary kind, TTL>=0, payload and peer through Message.Encode/Decode. Oracle: decode(encode(x)) == x field by field (nil == empty for byte slices); and every encoding handed out during the case is held, as the sender and the gossip queue hold them, and must still be byte-identical at the end of the case (encoding one value must not disturb another's bytes). Non-trivial: the value has an audit-path entry with index >= 256 or a non-empty message payload. distinct = FNV-64 of the value."

func u64() *rapid.Generator[uint64] {
	return rapid.OneOf(
		rapid.Uint64Range(0, 300),
		rapid.SampledFrom([]uint64{0, 1, 255, 256, 1<<32 - 1, 1 << 32, 1<<32 + 1, 1<<63 - 1, 1 << 63, 1<<63 + 1, 1<<64 - 1}),
		rapid.Uint64(),
	)
}

func bytesGen(max int) *rapid.Generator[[]byte] {
	return rapid.OneOf(rapid.SliceOfN(rapid.Byte(), 32, 32), rapid.SliceOfN(rapid.Byte(), 0, max), rapid.Just([]byte(nil)))
}

func TestSyntheticRoundTrip(t *testing.T) {
	rec := pbt.NewRec("C13", "TestSyntheticRoundTrip", ruleSynth)
	pbt.Run(t, rec, func(rt *rapid.T) SH {
		var h SH
		seen := map[[2]uint64]bool{}
		for i, k := 0, rapid.IntRange(0, 30).Draw(rt, "npath"); i < k; i++ {
			e := Entry{Index: u64().Draw(rt, "idx"), Height: uint16(rapid.OneOf(rapid.IntRange(0, 64), rapid.IntRange(0, 65535)).Draw(rt, "h")), Val: bytesGen(40).Draw(rt, "val")}
			if !seen[[2]uint64{e.Index, uint64(e.Height)}] {
				seen[[2]uint64{e.Index, uint64(e.Height)}] = true
				h.Path = append(h.Path, e)
			}
		}
		for i, k := 0, rapid.IntRange(0, 8).Draw(rt, "nsnap"); i < k; i++ {
			h.Snaps = append(h.Snaps, Snap{bytesGen(40).Draw(rt, "ev"), bytesGen(40).Draw(rt, "hi"), bytesGen(40).Draw(rt, "hy"), u64().Draw(rt, "ver"), bytesGen(70).Draw(rt, "sig")})
		}
		for i, k := 0, rapid.IntRange(0, 12).Draw(rt, "ndig"); i < k; i++ {
			h.Digests = append(h.Digests, rapid.OneOf(rapid.SliceOfN(rapid.Byte(), 32, 32), rapid.SliceOfN(rapid.Byte(), 1, 64)).Draw(rt, "dig"))
		}
		for i := 0; i < 4; i++ {
			h.U = append(h.U, u64().Draw(rt, "u"))
		}
		h.Msg.Kind = uint8(rapid.IntRange(0, 255).Draw(rt, "kind"))
		h.Msg.TTL = rapid.OneOf(rapid.IntRange(0, 5), rapid.IntRange(0, 1<<31-1)).Draw(rt, "ttl")
		h.Msg.Payload = rapid.SliceOfN(rapid.Byte(), 0, 3000).Draw(rt, "payload")
		if rapid.Bool().Draw(rt, "peer") {
			h.Msg.Peer = &struct {
				Name   string
				IP     []byte
				Port   uint16
				Role   string
				Status int32
			}{rapid.StringN(0, 20, 40).Draw(rt, "name"), rapid.SampledFrom([][]byte{{127, 0, 0, 1}, net.ParseIP("::1"), net.ParseIP("10.1.2.3")}).Draw(rt, "ip"),
				uint16(rapid.IntRange(0, 65535).Draw(rt, "port")), rapid.SampledFrom([]string{"auditor", "monitor", "publisher", "server", ""}).Draw(rt, "role"), int32(rapid.IntRange(0, 4).Draw(rt, "status"))}
		}
		return h
	}, execSynth)
}

func execSynth(h SH, rec *pbt.Rec) error {
	idx256 := false
	// every encoding handed out is kept (as the sender, the gossip queue and the stores keep
	// them) together with a private copy taken at that moment; later encodings must not change it
	type heldEnc struct {
		what      string
		enc, copy []byte
	}
	var held []heldEnc
	hold := func(what string, enc []byte) {
		held = append(held, heldEnc{what, enc, append([]byte(nil), enc...)})
	}
	// audit path
	ap := history.AuditPath{}
	for _, e := range h.Path {
		var k [10]byte
		for i := 0; i < 8; i++ {
			k[i] = byte(e.Index >> uint(56-8*i))
		}
		k[8], k[9] = byte(e.Height>>8), byte(e.Height)
		ap[k] = e.Val
		if e.Index >= 256 {
			idx256 = true
		}
	}
	raw, err := json.Marshal(ap.Serialize())
	if err != nil {
		return err
	}
	var ser map[string]hashing.Digest
	if err := json.Unmarshal(raw, &ser); err != nil {
		return err
	}
	if err := eqPath(ap, history.ParseAuditPath(ser)); err != nil {
		return fmt.Errorf("audit path round trip: %v (path %v)", err, h.Path)
	}
	// snapshots
	batch := &protocol.BatchSnapshots{}
	for _, s := range h.Snaps {
		ps := &protocol.Snapshot{EventDigest: s.Ev, HistoryDigest: s.Hist, HyperDigest: s.Hyper, Version: s.Version}
		enc, err := ps.Encode()
		if err != nil {
			return err
		}
		hold(fmt.Sprintf("Snapshot(version %d).Encode", ps.Version), enc)
		var back protocol.Snapshot
		if err := back.Decode(enc); err != nil {
			return err
		}
		if !eqSnap(ps, &back) {
			return fmt.Errorf("snapshot round trip: %+v became %+v", ps, back)
		}
		ss := &protocol.SignedSnapshot{Snapshot: ps, Signature: s.Sig}
		enc, err = ss.Encode()
		if err != nil {
			return err
		}
		hold(fmt.Sprintf("SignedSnapshot(version %d).Encode", ps.Version), enc)
		var sback protocol.SignedSnapshot
		if err := sback.Decode(enc); err != nil {
			return err
		}
		if sback.Snapshot == nil || !eqSnap(ps, sback.Snapshot) || !eqBytes(s.Sig, sback.Signature) {
			return fmt.Errorf("signed snapshot round trip: %+v became %+v", ss, sback)
		}
		batch.Snapshots = append(batch.Snapshots, ss)
	}
	enc, err := batch.Encode()
	if err != nil {
		return err
	}
	hold("BatchSnapshots.Encode", enc)
	// the sender encodes batch after batch while earlier payloads are still queued
	for k := 1; k <= 2 && len(batch.Snapshots) > k; k++ {
		part := &protocol.BatchSnapshots{Snapshots: batch.Snapshots[k:]}
		if e2, err := part.Encode(); err == nil {
			hold(fmt.Sprintf("BatchSnapshots[%d:].Encode", k), e2)
		}
	}
	var bback protocol.BatchSnapshots
	if err := bback.Decode(enc); err != nil {
		return err
	}
	if len(bback.Snapshots) != len(batch.Snapshots) {
		return fmt.Errorf("batch round trip: %d snapshots became %d", len(batch.Snapshots), len(bback.Snapshots))
	}
	for i := range batch.Snapshots {
		if bback.Snapshots[i] == nil || bback.Snapshots[i].Snapshot == nil || !eqSnap(batch.Snapshots[i].Snapshot, bback.Snapshots[i].Snapshot) || !eqBytes(batch.Snapshots[i].Signature, bback.Snapshots[i].Signature) {
			return fmt.Errorf("batch round trip: entry %d changed", i)
		}
	}
	// replicated command
	if len(h.Digests) > 0 {
		var in []hashing.Digest
		for _, d := range h.Digests {
			in = append(in, d)
		}
		data, err := consensus.VerifEncodeAddCommand(in)
		if err != nil {
			return err
		}
		out, err := consensus.VerifDecodeAddCommand(data)
		if err != nil {
			return fmt.Errorf("command decode: %v", err)
		}
		if len(out) != len(in) {
			return fmt.Errorf("command round trip: %d digests became %d", len(in), len(out))
		}
		for i := range in {
			if !eqBytes(in[i], out[i]) {
				return fmt.Errorf("command round trip: digest %d changed", i)
			}
		}
	}
	// state, metadata, raft snapshot body
	u := h.U
	if b, err := consensus.VerifEncodeFSMState(u[0], u[1]); err != nil {
		return err
	} else if i, v, err := consensus.VerifDecodeFSMState(b); err != nil || i != u[0] || v != u[1] {
		return fmt.Errorf("fsm state round trip: (%d,%d) became (%d,%d) err=%v", u[0], u[1], i, v, err)
	}
	if b, err := consensus.VerifEncodeVersionMetadata(u[2], u[3]); err != nil {
		return err
	} else if p, nx, err := consensus.VerifDecodeVersionMetadata(b); err != nil || p != u[2] || nx != u[3] {
		return fmt.Errorf("version metadata round trip: (%d,%d) became (%d,%d) err=%v", u[2], u[3], p, nx, err)
	}
	if b, err := consensus.VerifEncodeFSMSnapshot(u[1], u[2]); err != nil {
		return err
	} else if s, v, err := consensus.VerifDecodeFSMSnapshot(b); err != nil || s != u[1] || v != u[2] {
		return fmt.Errorf("raft snapshot body round trip: (%d,%d) became (%d,%d) err=%v", u[1], u[2], s, v, err)
	}
	// gossip message
	msg := &gossip.Message{Kind: gossip.MessageType(h.Msg.Kind), TTL: h.Msg.TTL, Payload: h.Msg.Payload}
	if p := h.Msg.Peer; p != nil {
		msg.From = &gossip.Peer{Name: p.Name, Addr: net.IP(p.IP), Port: p.Port, Meta: gossip.Meta{Role: p.Role}, Status: gossip.Status(p.Status)}
	}
	mb, err := msg.Encode()
	if err != nil {
		return err
	}
	hold("gossip Message.Encode", mb)
	if mb2, err := (&gossip.Message{Kind: msg.Kind, TTL: msg.TTL + 1, Payload: msg.Payload, From: msg.From}).Encode(); err == nil {
		hold("gossip Message.Encode (second)", mb2)
	}
	var mback gossip.Message
	if err := mback.Decode(mb); err != nil {
		return fmt.Errorf("message decode: %v", err)
	}
	if mback.Kind != msg.Kind || mback.TTL != msg.TTL || !eqBytes(mback.Payload, msg.Payload) {
		return fmt.Errorf("message round trip: kind/ttl/payload changed: %d/%d/%d bytes became %d/%d/%d bytes", msg.Kind, msg.TTL, len(msg.Payload), mback.Kind, mback.TTL, len(mback.Payload))
	}
	if (msg.From == nil) != (mback.From == nil) {
		return fmt.Errorf("message round trip: peer presence changed")
	}
	if msg.From != nil {
		a, b := *msg.From, *mback.From
		if a.Name != b.Name || !a.Addr.Equal(b.Addr) || a.Port != b.Port || !reflect.DeepEqual(a.Meta, b.Meta) || a.Status != b.Status {
			return fmt.Errorf("message round trip: peer %+v became %+v", a, b)
		}
	}
	for i, e := range held {
		if !eqBytes(e.enc, e.copy) {
			return fmt.Errorf("the bytes returned by %s (encoding %d of %d in this case) changed after later encodings: they were %q and are now %q", e.what, i+1, len(held), clip(e.copy), clip(e.enc))
		}
	}
	rec.Count("held_encodings_compared", int64(len(held)))
	rec.Case(h, idx256 || len(h.Msg.Payload) > 0, "")
	rec.Sample(len(h.Path)+len(h.Snaps), h)
	return nil
}

func eqSnap(a, b *protocol.Snapshot) bool {
	return eqBytes(a.EventDigest, b.EventDigest) && eqBytes(a.HistoryDigest, b.HistoryDigest) && eqBytes(a.HyperDigest, b.HyperDigest) && a.Version == b.Version
}

func clip(b []byte) string {
	if len(b) > 120 {
		return string(b[:120]) + "..."
	}
	return string(b)
}
