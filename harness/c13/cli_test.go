package c13

import (
	"bytes"
	"fmt"
	"io"
	"net/http"
	"net/http/httptest"
	"os"
	"regexp"
	"strconv"
	"strings"
	"sync"
	"testing"

	"github.com/bbva/qed/api/apihttp"
	"github.com/bbva/qed/balloon"
	qedcmd "github.com/bbva/qed/cmd"
	"pgregory.net/rapid"

	"verif/gen"
	"verif/pbt"
	"verif/rig"
)

// The "other side" of the wire that end users actually hold: the qed command
// line. `qed client membership --event-digest … --version … --hyper-digest …
// --history-digest … --verify` fetches the public JSON form from the real
// handlers, decodes it and prints the fields and a verdict.

type CH struct {
	rig.LogHistory
	Queries [][2]uint64 `json:"queries"` // (version of the event, query version)
	WrongAt []uint64    `json:"wrong_at"`
}

const ruleCLI = "rapid-drawn logs behind the real api/apihttp handlers; for drawn (event, query version) pairs the real command line (cmd.Root: qed client membership --event-digest --version --hyper-digest --history-digest --verify, digests in the hex form qed prints) must print the fields of the original answer unchanged and the same verdict as the original proof: OK against the genuine snapshots, KO against another version's history digest. Non-trivial: a pair with q > version(e), or a digest whose hex form starts with the digit 0. distinct = FNV-64 of the history."

func TestCommandLine(t *testing.T) {
	rec := pbt.NewRec("C13", "TestCommandLine", ruleCLI,
		"the command line keeps flag values between runs in one process, so every run passes every flag explicitly")
	pbt.Run(t, rec, func(rt *rapid.T) CH {
		h := CH{LogHistory: rig.DrawLog(rt, pbt.Scale(40, 200), true, false)}
		n := len(h.Digests)
		for i, k := 0, rapid.IntRange(3, 8).Draw(rt, "nq"); i < k; i++ {
			v := rapid.IntRange(0, n-1).Draw(rt, "v")
			q := rapid.IntRange(v, n-1).Draw(rt, "q")
			h.Queries = append(h.Queries, [2]uint64{uint64(v), uint64(q)})
			h.WrongAt = append(h.WrongAt, uint64(rapid.IntRange(0, n-1).Draw(rt, "wrong")))
		}
		return h
	}, execCLI)
}

// runQed runs the command line in this process and returns what it printed.
func runQed(args ...string) (out string, err error) {
	r, w, perr := os.Pipe()
	if perr != nil {
		return "", perr
	}
	saved := os.Stdout
	os.Stdout = w
	done := make(chan string)
	go func() {
		var buf bytes.Buffer
		io.Copy(&buf, r)
		done <- buf.String()
	}()
	func() {
		defer func() {
			if p := recover(); p != nil {
				err = fmt.Errorf("panic: %v", p)
			}
		}()
		qedcmd.Root.SetArgs(args)
		err = qedcmd.Root.Execute()
	}()
	os.Stdout = saved
	w.Close()
	out = <-done
	r.Close()
	return out, err
}

var (
	cliOnce    sync.Once
	cliSrv     *httptest.Server
	cliMu      sync.RWMutex
	cliHandler http.Handler
)

var reField = regexp.MustCompile(`(?m)^ (Exists|CurrentVersion|QueryVersion|ActualVersion|KeyDigest): (\S+)$`)

func execCLI(h CH, rec *pbt.Rec) error {
	b, _, err := h.Build(false)
	if err != nil {
		return &pbt.Unsettled{Why: "building the log: " + err.Error()}
	}
	// one endpoint per process: the command line's --endpoints flag is a slice that keeps
	// growing over the runs made in one process, so a per-case server would leave stale
	// first entries behind (an artefact of running the command in-process, not of qed)
	cliOnce.Do(func() {
		cliSrv = httptest.NewServer(http.HandlerFunc(func(w http.ResponseWriter, r *http.Request) {
			cliMu.RLock()
			hd := cliHandler
			cliMu.RUnlock()
			hd.ServeHTTP(w, r)
		}))
	})
	cliMu.Lock()
	cliHandler = apihttp.NewApiHttp(&rig.API{B: b})
	cliMu.Unlock()
	srv := cliSrv
	ds := h.Ds()
	cur := uint64(len(ds) - 1)
	nt := false
	for k, pr := range h.Queries {
		v, q := pr[0], pr[1]
		e := ds[v]
		orig, err := b.Bal.QueryDigestMembershipConsistency(rig.Dg(e), q)
		if err != nil {
			return &pbt.Unsettled{Why: fmt.Sprintf("original query (%d,%d): %v", v, q, err)}
		}
		good := &balloon.Snapshot{HistoryDigest: b.Snaps[q].HistoryDigest, HyperDigest: b.Snaps[cur].HyperDigest}
		w := h.WrongAt[k]
		bad := &balloon.Snapshot{HistoryDigest: b.Snaps[w].HistoryDigest, HyperDigest: b.Snaps[cur].HyperDigest}
		for _, c := range []struct {
			name string
			snap *balloon.Snapshot
		}{{"the genuine snapshots", good}, {fmt.Sprintf("the history digest of version %d instead of %d", w, q), bad}} {
			want := orig.DigestVerify(rig.Dg(e), c.snap)
			ev, hy, hi := gen.Hex(e), fmt.Sprintf("%x", c.snap.HyperDigest), fmt.Sprintf("%x", c.snap.HistoryDigest)
			out, rerr := runQed("client", "--endpoints", srv.URL, "--log", cliLog(),
				"--enable-topology-discovery=false", "--enable-health-checks=false",
				"membership", "--event-digest", ev, "--version", strconv.FormatUint(q, 10),
				"--hyper-digest", hy, "--history-digest", hi, "--verify=true", "--auto-verify=false")
			tag := fmt.Sprintf("qed client membership --event-digest %s --version %d --hyper-digest %s --history-digest %s --verify (event of version %d, log at %d; %s)", ev, q, hy, hi, v, cur, c.name)
			if rerr != nil && !strings.Contains(out, "Verify: ") {
				return fmt.Errorf("%s: the original answer exists and decodes, the command line fails: %v\n%s", tag, rerr, clipOut(out))
			}
			got := strings.Contains(out, "Verify: OK")
			if !got && !strings.Contains(out, "Verify: KO") {
				return fmt.Errorf("%s: no verdict printed\n%s", tag, clipOut(out))
			}
			if got != want {
				return fmt.Errorf("%s: the original proof's verdict is %v, the proof decoded by the command line gives %v\n%s", tag, want, got, clipOut(out))
			}
			f := map[string]string{}
			for _, m := range reField.FindAllStringSubmatch(out, -1) {
				f[m[1]] = m[2]
			}
			wantF := map[string]string{"Exists": fmt.Sprint(orig.Exists), "CurrentVersion": fmt.Sprint(orig.CurrentVersion), "QueryVersion": fmt.Sprint(orig.QueryVersion),
				"ActualVersion": fmt.Sprint(orig.ActualVersion), "KeyDigest": fmt.Sprintf("%x", orig.KeyDigest)}
			for name, wv := range wantF {
				if f[name] != wv {
					return fmt.Errorf("%s: field %s is %q on the command line, %q in the original answer", tag, name, f[name], wv)
				}
			}
			rec.Count("cli_verdicts_compared", 1)
			if ev[0] == '0' || hy[0] == '0' || hi[0] == '0' {
				rec.Class("leading-zero-digit", 1)
				nt = true
			}
		}
		if q > v {
			nt = true
		}
	}
	rec.Case(h, nt, h.Classes()...)
	rec.Sample(len(ds), h)
	return nil
}

func clipOut(s string) string {
	if len(s) > 1500 {
		return s[:1500] + "…"
	}
	return s
}

func cliLog() string {
	if l := os.Getenv("VERIF_CLI_LOG"); l != "" {
		return l
	}
	return "error"
}
