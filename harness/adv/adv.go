// Package adv is the adversarial-answer grammar shared by C02 (soundness),
// C12 (totality) and C19 (tampering log): mutation operators over wire-form
// membership answers built from genuine answers of a real log.
package adv

import (
	"fmt"
	"math/bits"
	"sort"

	"github.com/bbva/qed/crypto/hashing"
	"github.com/bbva/qed/protocol"

	"verif/refmodel"
	"verif/rig"
)

// Op is one mutation operator applied to a wire-form answer.
type Op struct {
	Kind string `json:"k"`
	A    int    `json:"a"`
	B    int    `json:"b"`
}

// Cand is one candidate answer: a base (genuine answer for event Ev at query
// version Q, or the honest answer for non-member NonMember-1), operators, and
// the digest the client asks about.
type Cand struct {
	Ev        int  `json:"ev"`   // index into the event sequence; -1: base is a non-member's honest answer
	NonMember int  `json:"nm"`   // index into the non-member pool when Ev==-1
	Q         int  `json:"q"`    // query version of the base answer
	Ops       []Op `json:"ops"`  //
	Ask       int  `json:"ask"`  // -1: the base's own digest; >=0: pool index (members first, then non-members)
	AutoSnap  bool `json:"auto"` // pick snapshots the way client.MembershipAutoVerify does
	// Near > 0: the client asks about the base event's digest with bit Near-1 flipped (a digest
	// that was never inserted but lives in the same hyper subtree when the bit is deep enough)
	Near int `json:"near,omitempty"`
}

// World is a built log plus everything an adversarial server knows.
type World struct {
	B     *rig.B
	M     *refmodel.Log
	Ds    []refmodel.D
	NM    []refmodel.D
	N     int
	cache map[[2]int]*protocol.MembershipResult
}

// genuine returns (a fresh copy of) the honest wire-form answer for digest
// index di (members first, then non-members) at query version q.
func (w *World) Genuine(di, q int) (*protocol.MembershipResult, error) {
	k := [2]int{di, q}
	mr, ok := w.cache[k]
	if !ok {
		var d refmodel.D
		if di < w.N {
			d = w.Ds[di]
		} else {
			d = w.NM[di-w.N]
		}
		p, err := w.B.Bal.QueryDigestMembershipConsistency(rig.Dg(d), uint64(q))
		if err != nil {
			w.cache[k] = nil
			return nil, err
		}
		_, mr, err = rig.WireMembership(p)
		if err != nil {
			return nil, err
		}
		w.cache[k] = mr
	}
	if mr == nil {
		return nil, fmt.Errorf("no answer")
	}
	return CloneMR(mr), nil
}

func CloneMR(mr *protocol.MembershipResult) *protocol.MembershipResult {
	c := *mr
	c.Hyper = map[string]hashing.Digest{}
	for k, v := range mr.Hyper {
		c.Hyper[k] = append(hashing.Digest{}, v...)
	}
	if mr.History != nil {
		c.History = map[string]hashing.Digest{}
		for k, v := range mr.History {
			c.History[k] = append(hashing.Digest{}, v...)
		}
	}
	c.KeyDigest = append(hashing.Digest{}, mr.KeyDigest...)
	return &c
}

func KeysOf(m map[string]hashing.Digest) []string {
	ks := make([]string, 0, len(m))
	for k := range m {
		ks = append(ks, k)
	}
	sort.Strings(ks)
	return ks
}

func (w *World) Pool(i int) refmodel.D {
	i %= w.N + len(w.NM)
	if i < w.N {
		return w.Ds[i]
	}
	return w.NM[i-w.N]
}

func (w *World) Version(mr *protocol.MembershipResult, a, b int) uint64 {
	cur := uint64(w.N - 1)
	switch a % 9 {
	case 0:
		return 0
	case 1:
		return mr.ActualVersion + 1
	case 2:
		return mr.ActualVersion - 1
	case 3:
		return uint64(b % w.N)
	case 4:
		return mr.QueryVersion + 1
	case 5:
		return cur + 1
	case 6:
		return 1<<63 - 1
	case 7:
		return 1<<64 - 1
	default:
		return cur
	}
}

func (w *World) Apply(mr *protocol.MembershipResult, op Op) {
	switch op.Kind {
	case "exists":
		mr.Exists = !mr.Exists
	case "actual":
		mr.ActualVersion = w.Version(mr, op.A, op.B)
	case "query":
		mr.QueryVersion = w.Version(mr, op.A, op.B)
	case "current":
		mr.CurrentVersion = w.Version(mr, op.A, op.B)
	case "key":
		d := w.Pool(op.A)
		mr.KeyDigest = rig.Dg(d)
	case "hist-drop", "hist-flip", "hist-rename", "hist-dupkey":
		ks := KeysOf(mr.History)
		if len(ks) == 0 {
			return
		}
		k := ks[op.A%len(ks)]
		switch op.Kind {
		case "hist-drop":
			delete(mr.History, k)
		case "hist-flip":
			v := mr.History[k]
			if len(v) > 0 {
				v[op.B%len(v)] ^= 1 << uint(op.B%8)
			}
		case "hist-rename":
			v := mr.History[k]
			delete(mr.History, k)
			mr.History[fmt.Sprintf("%d|%d", op.A, op.B%8)] = v
		case "hist-dupkey":
			mr.History[fmt.Sprintf("%d|%d", op.B, op.A%8)] = mr.History[k]
		}
	case "hyper-drop", "hyper-flip", "hyper-rename":
		ks := KeysOf(mr.Hyper)
		if len(ks) == 0 {
			return
		}
		k := ks[op.A%len(ks)]
		switch op.Kind {
		case "hyper-drop":
			delete(mr.Hyper, k)
		case "hyper-flip":
			v := mr.Hyper[k]
			if len(v) > 0 {
				v[op.B%len(v)] ^= 1 << uint(op.B%8)
			}
		case "hyper-rename":
			v := mr.Hyper[k]
			delete(mr.Hyper, k)
			mr.Hyper[ks[(op.A+1+op.B)%len(ks)]] = v
		}
	case "drop3":
		for i := 0; i < 1+op.B%3; i++ {
			if (op.A+i)%2 == 0 {
				if ks := KeysOf(mr.History); len(ks) > 0 {
					delete(mr.History, ks[(op.A+i)%len(ks)])
				}
			} else if ks := KeysOf(mr.Hyper); len(ks) > 0 {
				delete(mr.Hyper, ks[(op.A+i)%len(ks)])
			}
		}
	case "hist-onpath":
		// an extra entry for a node ON the path from the claimed leaf to the root, carrying that
		// node's true hash (the root's is public: it is the history digest): a verifier must compute
		// those nodes from the queried digest, never take them from the server
		v, i := mr.QueryVersion, mr.ActualVersion
		if v >= uint64(w.N) || i > v || mr.History == nil {
			return
		}
		depth := bits.Len64(v)
		h := uint16(op.A % (depth + 1))
		if op.B%3 == 0 {
			h = uint16(depth) // the root
		}
		idx := i >> h << h
		val := refmodel.HistoryNodeAt(w.Ds, idx, h, v)
		mr.History[fmt.Sprintf("%d|%d", idx, h)] = append(hashing.Digest{}, val[:]...)
	case "splice-hist", "splice-hyper":
		ev := op.A % w.N
		q := ev + op.B%(w.N-ev)
		o, err := w.Genuine(ev, q)
		if err != nil {
			return
		}
		if op.Kind == "splice-hist" {
			mr.History = o.History
			if op.B%2 == 0 {
				mr.ActualVersion, mr.QueryVersion = o.ActualVersion, o.QueryVersion
			}
		} else {
			mr.Hyper = o.Hyper
			if op.B%2 == 0 {
				mr.KeyDigest = o.KeyDigest
			}
		}
	}
}

// OpKinds are the C02 operators.
var OpKinds = []string{
	"exists", "actual", "query", "current", "key",
	"hist-drop", "hist-flip", "hist-rename", "hist-dupkey",
	"hyper-drop", "hyper-flip", "hyper-rename",
	"splice-hist", "splice-hyper", "drop3", "hist-onpath",
}

// NewWorld wraps a built log.
func NewWorld(b *rig.B, m *refmodel.Log, ds, nm []refmodel.D) *World {
	return &World{B: b, M: m, Ds: ds, NM: nm, N: len(ds), cache: map[[2]int]*protocol.MembershipResult{}}
}

// ------------------------------------------------------------------ C12

// StructOpKinds are the structural (malformation) operators C12 adds.
var StructOpKinds = []string{
	"hist-badkey", "hyper-badkey", "key-len", "hist-val-len", "hyper-val-len",
	"nil-hist", "nil-hyper", "empty-hyper", "empty-hist", "hyper-extra", "hist-extra", "huge-versions",
}

var badKeys = []string{"", "7", "a|b", "-1|0", "1|2|3", "|", "99999999999999999999|1", "1|99999", "0x10|3", " 1|2", "1|", "|1", "18446744073709551615|65535", "9223372036854775807|63"}
var badLens = []int{0, 1, 7, 31, 33, 64, 300}

func bytesOfLen(n, seed int) []byte {
	b := make([]byte, n)
	for i := range b {
		b[i] = byte(seed + i*31)
	}
	return b
}

// ApplyStruct applies a structural operator to a membership answer.
func (w *World) ApplyStruct(mr *protocol.MembershipResult, op Op) {
	switch op.Kind {
	case "hist-badkey":
		if mr.History == nil {
			mr.History = map[string]hashing.Digest{}
		}
		ks := KeysOf(mr.History)
		var v hashing.Digest = bytesOfLen(32, op.B)
		if len(ks) > 0 && op.B%2 == 0 {
			k := ks[op.A%len(ks)]
			v = mr.History[k]
			delete(mr.History, k)
		}
		mr.History[badKeys[op.A%len(badKeys)]] = v
	case "hyper-badkey":
		if mr.Hyper == nil {
			mr.Hyper = map[string]hashing.Digest{}
		}
		ks := KeysOf(mr.Hyper)
		var v hashing.Digest = bytesOfLen(32, op.B)
		if len(ks) > 0 && op.B%2 == 0 {
			k := ks[op.A%len(ks)]
			v = mr.Hyper[k]
			delete(mr.Hyper, k)
		}
		mr.Hyper[badKeys[op.A%len(badKeys)]] = v
	case "key-len":
		mr.KeyDigest = bytesOfLen(badLens[op.A%len(badLens)], op.B)
	case "hist-val-len":
		if ks := KeysOf(mr.History); len(ks) > 0 {
			mr.History[ks[op.A%len(ks)]] = bytesOfLen(badLens[op.B%len(badLens)], op.A)
		}
	case "hyper-val-len":
		if ks := KeysOf(mr.Hyper); len(ks) > 0 {
			mr.Hyper[ks[op.A%len(ks)]] = bytesOfLen(badLens[op.B%len(badLens)], op.A)
		}
	case "nil-hist":
		mr.History = nil
	case "nil-hyper":
		mr.Hyper = nil
	case "empty-hyper":
		mr.Hyper = map[string]hashing.Digest{}
	case "empty-hist":
		mr.History = map[string]hashing.Digest{}
	case "hyper-extra":
		if mr.Hyper == nil {
			mr.Hyper = map[string]hashing.Digest{}
		}
		for i := 0; i < 1+op.A*5; i++ { // up to >256 entries
			mr.Hyper[fmt.Sprintf("%#x|%d", bytesOfLen(32, i+op.B), (i*7+op.B)%257)] = bytesOfLen(32, i)
		}
	case "hist-extra":
		if mr.History == nil {
			mr.History = map[string]hashing.Digest{}
		}
		for i := 0; i < 1+op.A; i++ {
			mr.History[fmt.Sprintf("%d|%d", i*op.B, i%64)] = bytesOfLen(32, i)
		}
	case "huge-versions":
		vs := []uint64{1<<63 - 1, 1<<64 - 1, 1 << 62, 1<<32 + 1, 0}
		mr.ActualVersion = vs[op.A%len(vs)]
		mr.QueryVersion = vs[op.B%len(vs)]
		if op.A%3 == 0 {
			mr.CurrentVersion = vs[(op.A+op.B)%len(vs)]
		}
	}
}

// ApplyIncremental applies operator op (any kind) to an incremental answer.
func (w *World) ApplyIncremental(ir *protocol.IncrementalResponse, op Op) {
	ks := KeysOf(ir.AuditPath)
	switch op.Kind {
	case "hist-drop":
		if len(ks) > 0 {
			delete(ir.AuditPath, ks[op.A%len(ks)])
		}
	case "hist-flip":
		if len(ks) > 0 {
			if v := ir.AuditPath[ks[op.A%len(ks)]]; len(v) > 0 {
				v[op.B%len(v)] ^= 1
			}
		}
	case "hist-rename", "hist-dupkey":
		if len(ks) > 0 {
			v := ir.AuditPath[ks[op.A%len(ks)]]
			if op.Kind == "hist-rename" {
				delete(ir.AuditPath, ks[op.A%len(ks)])
			}
			ir.AuditPath[fmt.Sprintf("%d|%d", op.A, op.B%8)] = v
		}
	case "drop3":
		for i := 0; i < 1+op.B%3 && len(ks) > 0; i++ {
			delete(ir.AuditPath, ks[(op.A+i)%len(ks)])
		}
	case "hist-badkey":
		if ir.AuditPath == nil {
			ir.AuditPath = map[string]hashing.Digest{}
		}
		var v hashing.Digest = bytesOfLen(32, op.B)
		if len(ks) > 0 && op.B%2 == 0 {
			v = ir.AuditPath[ks[op.A%len(ks)]]
			delete(ir.AuditPath, ks[op.A%len(ks)])
		}
		ir.AuditPath[badKeys[op.A%len(badKeys)]] = v
	case "hist-val-len":
		if len(ks) > 0 {
			ir.AuditPath[ks[op.A%len(ks)]] = bytesOfLen(badLens[op.B%len(badLens)], op.A)
		}
	case "nil-hist":
		ir.AuditPath = nil
	case "empty-hist":
		ir.AuditPath = map[string]hashing.Digest{}
	case "hist-extra":
		if ir.AuditPath == nil {
			ir.AuditPath = map[string]hashing.Digest{}
		}
		for i := 0; i < 1+op.A; i++ {
			ir.AuditPath[fmt.Sprintf("%d|%d", i*op.B, i%64)] = bytesOfLen(32, i)
		}
	case "huge-versions":
		vs := []uint64{1<<63 - 1, 1<<64 - 1, 1 << 62, 1<<32 + 1, 0}
		ir.Start = vs[op.A%len(vs)]
		ir.End = vs[op.B%len(vs)]
	case "actual", "query", "current":
		// version triple: any Start/End combination
		n := uint64(w.N)
		vals := []uint64{0, ir.Start + 1, ir.Start - 1, ir.End + 1, ir.End - 1, n, n + 1, uint64(op.B) % (n + 1)}
		if op.A%2 == 0 {
			ir.Start = vals[op.B%len(vals)]
		} else {
			ir.End = vals[op.B%len(vals)]
		}
		if op.A%5 == 0 {
			ir.Start, ir.End = ir.End, ir.Start
		}
	}
}
