// C06 — replicas agree: any replica's proofs verify against the leader's
// snapshots.
package c06

import (
	"fmt"
	"sort"
	"testing"
	"time"

	"pgregory.net/rapid"

	"verif/pbt"
	"verif/rig"
	"verif/xp"
)

type Step struct {
	Op     string   `json:"op"` // add | stop | restart | transfer | check
	Events []string `json:"events,omitempty"`
	Single bool     `json:"single,omitempty"`
	K      int      `json:"k,omitempty"` // which follower
}

type H struct {
	Steps []Step `json:"steps"`
}

const rule = "a 3-node Raft cluster (three RaftNodes over RocksDB in one executor child, loopback transport) under rapid-drawn fault sequences of 8-30 steps: single / bulk adds on whoever leads (about one sequence in four contains a bulk of 1001-2001 events), stop a follower (Close), restart it on its directories (catch-up by log replay), transfer leadership, SIGKILL the process holding all replicas and restart them (at most once), check. At every check and at the end the cluster is awaited to quiescence (<=60 s) and all live replicas must report the same applied index and version, hold byte-identical hyper, hyper-cache, history and FSM-state tables, and each replica must answer sampled membership and consistency queries with proofs that verify against the snapshots the leaders returned to the client. Non-trivial: the sequence has a follower restart or a leadership transfer followed by >=1 add and a check. distinct = FNV-64 of the sequence."

func TestReplicas(t *testing.T) {
	rec := pbt.NewRec("C06", "TestReplicas", rule, "no network partitions or message loss are generated (no transport hook); replicas share a process, clock and scheduler")
	pbt.Run(t, rec, func(rt *rapid.T) H {
		var h H
		seq, stopped, big, crashed := 0, false, false, false
		for i, n := 0, rapid.IntRange(8, pbt.Scale(18, 30)).Draw(rt, "nsteps"); i < n; i++ {
			ops := []string{"add", "add", "add", "add", "add", "transfer", "transfer", "check", "check"}
			if !stopped && !crashed {
				ops = append(ops, "crash-all")
			}
			if stopped {
				ops = append(ops, "restart", "restart")
			} else {
				ops = append(ops, "stop")
			}
			switch op := rapid.SampledFrom(ops).Draw(rt, "op"); op {
			case "add":
				k := 1
				single := rapid.Bool().Draw(rt, "single")
				if !single {
					k = rapid.IntRange(1, 6).Draw(rt, "bulk")
				}
				if !big && rapid.IntRange(0, 24).Draw(rt, "big") == 0 {
					// one bulk above the 1000-entry page with which a restarted replica re-reads its recovery tiles
					k, single, big = rapid.SampledFrom([]int{1001, 1200, 2001}).Draw(rt, "big-n"), false, true
				}
				var es []string
				for j := 0; j < k; j++ {
					es = append(es, fmt.Sprintf("r-%d", seq))
					seq++
				}
				h.Steps = append(h.Steps, Step{Op: "add", Events: es, Single: single})
			case "stop":
				stopped = true
				h.Steps = append(h.Steps, Step{Op: "stop", K: rapid.IntRange(0, 1).Draw(rt, "k")})
			case "restart":
				stopped = false
				h.Steps = append(h.Steps, Step{Op: "restart"})
			case "crash-all":
				crashed = true
				h.Steps = append(h.Steps, Step{Op: "crash-all"}, Step{Op: "check"})
			default:
				h.Steps = append(h.Steps, Step{Op: op})
			}
		}
		return h
	}, exec)
}

func unsettled(f string, a ...interface{}) error { return &pbt.Unsettled{Why: fmt.Sprintf(f, a...)} }

func exec(h H, rec *pbt.Rec) error {
	x, err := rig.StartExec("nodeexec")
	if err != nil {
		return unsettled("executor: %v", err)
	}
	c, err := rig.NewCluster(x, 3, xp.NodeOpts{TimeoutMs: 300, SnapshotThreshold: 1 << 30, TrailingLogs: 1 << 20})
	if err != nil {
		x.Kill()
		return unsettled("cluster boot: %v", err)
	}
	defer func() { c.X.Kill() }()
	stopped := ""
	faultThenAdd, ntDone := false, false
	fault := false
	check := func(when string) error {
		if _, err := c.Quiesce(60 * time.Second); err != nil {
			if _, dead := err.(*rig.Death); dead {
				return fmt.Errorf("%s: the process holding the replicas died: %v", when, err)
			}
			return fmt.Errorf("%s: %v", when, err)
		}
		k, err := c.CheckReplicas(8)
		rec.Count("proofs_verified", int64(k))
		rec.Count("quiescent_checks", 1)
		if err != nil {
			if _, dead := err.(*rig.Death); dead {
				return fmt.Errorf("%s: the process holding the replicas died: %v", when, err)
			}
			return fmt.Errorf("%s: %v", when, err)
		}
		if faultThenAdd {
			ntDone = true
		}
		return nil
	}
	for si, s := range h.Steps {
		switch s.Op {
		case "add":
			if _, err := c.Add(s.Events, s.Single); err != nil {
				if _, ok := err.(*rig.Indeterminate); ok {
					return unsettled("step %d: %v", si, err)
				}
				if _, dead := err.(*rig.Death); dead {
					return fmt.Errorf("step %d (add): the process holding the replicas died: %v", si, err)
				}
				return unsettled("step %d add: %v", si, err)
			}
			if fault {
				faultThenAdd = true
			}
		case "stop":
			if stopped != "" {
				continue
			}
			l, err := c.Leader("", 20*time.Second)
			if err != nil {
				return unsettled("%v", err)
			}
			var fs []string
			for nm := range c.Live {
				if nm != l.Name {
					fs = append(fs, nm)
				}
			}
			sort.Strings(fs)
			stopped = fs[s.K%len(fs)]
			if err := c.Stop(stopped); err != nil {
				return unsettled("stop %s: %v", stopped, err)
			}
			rec.Class("follower-stop", 1)
		case "restart":
			if stopped == "" {
				continue
			}
			if err := c.Restart(stopped); err != nil {
				if _, dead := err.(*rig.Death); dead {
					return fmt.Errorf("step %d: restarting follower %s killed the process: %v", si, stopped, err)
				}
				return unsettled("restart %s: %v", stopped, err)
			}
			stopped = ""
			fault = true
			rec.Class("follower-restart", 1)
		case "transfer":
			if _, _, err := c.Transfer(); err != nil {
				if _, dead := err.(*rig.Death); dead {
					return fmt.Errorf("step %d: leadership transfer killed the process: %v", si, err)
				}
				return unsettled("transfer: %v", err)
			}
			fault = true
			rec.Class("leader-transfer", 1)
		case "crash-all":
			if stopped != "" {
				continue
			}
			if err := c.CrashAll(); err != nil {
				if _, dead := err.(*rig.Death); dead {
					return fmt.Errorf("step %d: after a SIGKILL of all replicas the cluster cannot be restarted: %v", si, err)
				}
				return unsettled("crash-all: %v", err)
			}
			fault = true
			rec.Class("crash-all", 1)
		case "check":
			if err := check(fmt.Sprintf("step %d", si)); err != nil {
				return err
			}
		}
	}
	if stopped != "" {
		if err := c.Restart(stopped); err != nil {
			return unsettled("final restart: %v", err)
		}
		fault = true
	}
	if err := check("at the end"); err != nil {
		return err
	}
	rec.Case(h, ntDone)
	rec.Count("events", int64(c.Acked.Len()))
	rec.Sample(len(h.Steps), h)
	return nil
}
