// Package gen holds the rapid generators shared by the property packages
// (DESIGN.md §4.2). Every random choice goes through rapid so that shrinking
// and replay work.
package gen

import (
	"encoding/hex"
	"fmt"

	"pgregory.net/rapid"
	"verif/refmodel"
)

type D = refmodel.D

// Hex renders a digest for histories written to JSON.
func Hex(d D) string { return hex.EncodeToString(d[:]) }

// UnHex parses a digest written by Hex.
func UnHex(s string) D {
	var d D
	b, err := hex.DecodeString(s)
	if err != nil || len(b) != 32 {
		panic(fmt.Sprintf("bad digest %q", s))
	}
	copy(d[:], b)
	return d
}

func flipBit(d D, k int) D { d[k/8] ^= 1 << uint(7-k%8); return d }

// PrefixDepth draws the length of a shared prefix, biased to the places the
// hyper tree branches on: the very top, around the 24-level cache limit, the
// first batches below it (batch boundary every 4 levels), and deep chains.
func PrefixDepth() *rapid.Generator[int] {
	return rapid.OneOf(
		rapid.IntRange(0, 3),
		rapid.IntRange(20, 27),
		rapid.IntRange(28, 40),
		rapid.IntRange(41, 199),
		rapid.IntRange(200, 255),
	)
}

// SharedPrefix returns the number of leading bits a and b share.
func SharedPrefix(a, b D) int {
	for i := 0; i < 256; i++ {
		if (a[i/8]^b[i/8])&(1<<uint(7-i%8)) != 0 {
			return i
		}
	}
	return 256
}

// Digests draws n digests. With distinct=true they are pairwise different;
// otherwise earlier digests may be re-used (the dup class). The mixture is:
// uniformly random, prefix families (an earlier digest with exactly bit k
// flipped, so the pair shares a k-bit prefix), all-zero / all-one.
func Digests(t *rapid.T, n int, distinct bool) []D {
	out := make([]D, 0, n)
	seen := map[D]bool{}
	for len(out) < n {
		var d D
		kind := rapid.IntRange(0, 9).Draw(t, "kind")
		switch {
		case kind <= 3 || len(out) == 0 && kind < 9:
			b := rapid.SliceOfN(rapid.Byte(), 32, 32).Draw(t, "rnd")
			copy(d[:], b)
		case kind <= 7:
			base := out[rapid.IntRange(0, len(out)-1).Draw(t, "base")]
			d = flipBit(base, PrefixDepth().Draw(t, "k"))
			// optionally randomise the tail after the flipped bit
			if rapid.Bool().Draw(t, "tail") {
				k := SharedPrefix(base, d)
				tail := rapid.SliceOfN(rapid.Byte(), 32, 32).Draw(t, "tailbytes")
				for i := k + 1; i < 256; i++ {
					if tail[i/8]&(1<<uint(7-i%8)) != 0 {
						d = flipBit(d, i)
					}
				}
			}
		case kind == 8:
			if !distinct && len(out) > 0 {
				d = out[rapid.IntRange(0, len(out)-1).Draw(t, "dup")]
			} else {
				b := rapid.SliceOfN(rapid.Byte(), 32, 32).Draw(t, "rnd")
				copy(d[:], b)
			}
		default:
			if rapid.Bool().Draw(t, "ones") {
				for i := range d {
					d[i] = 0xff
				}
			}
		}
		if distinct && seen[d] {
			// construct a fresh one deterministically from the draw stream
			b := rapid.SliceOfN(rapid.Byte(), 32, 32).Draw(t, "fresh")
			copy(d[:], b)
			if seen[d] {
				continue
			}
		}
		seen[d] = true
		out = append(out, d)
	}
	return out
}

// LogSize draws a log length: small-biased, medium, power-of-two boundaries,
// occasionally large (bounded by max).
func LogSize(max int) *rapid.Generator[int] {
	gens := []*rapid.Generator[int]{rapid.IntRange(1, min(12, max))}
	if max > 12 {
		gens = append(gens, rapid.IntRange(13, min(80, max)))
	}
	var bnd []int
	for k := 1; k <= 12; k++ {
		for _, x := range []int{(1 << k) - 1, 1 << k, (1 << k) + 1} {
			if x >= 1 && x <= max {
				bnd = append(bnd, x)
			}
		}
	}
	if len(bnd) > 0 {
		gens = append(gens, rapid.SampledFrom(bnd))
	}
	if max > 80 {
		gens = append(gens, rapid.IntRange(81, max))
	}
	return rapid.OneOf(gens...)
}

// Partition splits n events into calls; each call is a single Add (size 1,
// Bulk=false) or an AddBulk of 1…m events.
type Call struct {
	Bulk bool `json:"bulk"`
	N    int  `json:"n"`
}

func Partition(t *rapid.T, n int) []Call {
	var calls []Call
	style := rapid.IntRange(0, 5).Draw(t, "pstyle")
	switch style {
	case 0: // all single
		for i := 0; i < n; i++ {
			calls = append(calls, Call{false, 1})
		}
		return calls
	case 1: // one big bulk
		return []Call{{true, n}}
	}
	left := n
	for left > 0 {
		if rapid.IntRange(0, 2).Draw(t, "single") == 0 {
			calls = append(calls, Call{false, 1})
			left--
			continue
		}
		m := rapid.IntRange(1, min(left, 1+left/2+3)).Draw(t, "bulk")
		if m > left {
			m = left
		}
		calls = append(calls, Call{true, m})
		left -= m
	}
	return calls
}

// VersionPairs returns the (e,q) / (i,j) pairs with 0<=a<=b<n to check:
// all of them when n<=exhaustiveUpTo, otherwise boundary pairs plus `extra`
// drawn ones.
func VersionPairs(t *rapid.T, n int, exhaustiveUpTo, extra int) (pairs [][2]uint64, exhaustive bool) {
	if n <= exhaustiveUpTo {
		for a := 0; a < n; a++ {
			for b := a; b < n; b++ {
				pairs = append(pairs, [2]uint64{uint64(a), uint64(b)})
			}
		}
		return pairs, true
	}
	set := map[[2]uint64]bool{}
	var pts []int
	add := func(x int) {
		if x >= 0 && x < n {
			pts = append(pts, x)
		}
	}
	add(0)
	add(1)
	add(n - 2)
	add(n - 1)
	for k := 1; (1 << k) <= n+1; k++ {
		add((1 << k) - 1)
		add(1 << k)
		add((1 << k) - 2)
	}
	for _, a := range pts {
		for _, b := range pts {
			if a <= b {
				set[[2]uint64{uint64(a), uint64(b)}] = true
			}
		}
	}
	for i := 0; i < extra; i++ {
		a := rapid.IntRange(0, n-1).Draw(t, "a")
		b := rapid.IntRange(a, n-1).Draw(t, "b")
		set[[2]uint64{uint64(a), uint64(b)}] = true
	}
	for p := range set {
		pairs = append(pairs, p)
	}
	// deterministic order
	sortPairs(pairs)
	return pairs, false
}

func sortPairs(p [][2]uint64) {
	for i := 1; i < len(p); i++ {
		for j := i; j > 0 && (p[j][0] < p[j-1][0] || p[j][0] == p[j-1][0] && p[j][1] < p[j-1][1]); j-- {
			p[j], p[j-1] = p[j-1], p[j]
		}
	}
}

func min(a, b int) int {
	if a < b {
		return a
	}
	return b
}
