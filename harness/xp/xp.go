// Package xp is the line-delimited JSON protocol between a property (parent)
// and the executor child process that holds real RocksDB stores, raft log
// stores, RaftNodes and servers (DESIGN.md §4.4).
package xp

// KV is a key/value pair; Go's JSON encodes []byte as base64.
type KV struct {
	T int    `json:"t,omitempty"` // table
	K []byte `json:"k"`
	V []byte `json:"v,omitempty"`
}

// StoreOp is one operation on a storage.Store.
type StoreOp struct {
	Op   string `json:"op"` // mutate get range all last reopen
	T    int    `json:"t,omitempty"`
	Muts []KV   `json:"muts,omitempty"`
	K    []byte `json:"k,omitempty"`
	S    []byte `json:"s,omitempty"`
	E    []byte `json:"e,omitempty"`
	Buf  int    `json:"buf,omitempty"`
}

// StoreObs is what a StoreOp observed.
type StoreObs struct {
	Err      string `json:"err,omitempty"`
	NotFound bool   `json:"nf,omitempty"`
	KVs      []KV   `json:"kvs,omitempty"`
}

// LogEntry mirrors raft.Log.
type LogEntry struct {
	Index uint64  `json:"i"`
	Term  uint64  `json:"t"`
	Type  uint8   `json:"ty"`
	Data  []byte  `json:"d"`
	Ext   []byte  `json:"x"`
	Nil   [2]bool `json:"nil"` // Data / Extensions are nil (not empty)
}

// LogOp is one operation on the raft log store.
type LogOp struct {
	Op      string     `json:"op"` // store stores get delrange first last set get-k setu getu reopen
	Entries []LogEntry `json:"entries,omitempty"`
	Index   uint64     `json:"index,omitempty"`
	Min     uint64     `json:"min,omitempty"`
	Max     uint64     `json:"max,omitempty"`
	K       []byte     `json:"k,omitempty"`
	V       []byte     `json:"v,omitempty"`
	U       uint64     `json:"u,omitempty"`
}

// LogObs is what a LogOp observed.
type LogObs struct {
	Err      string    `json:"err,omitempty"`
	NotFound bool      `json:"nf,omitempty"`
	Entry    *LogEntry `json:"entry,omitempty"`
	U        uint64    `json:"u,omitempty"`
	V        []byte    `json:"v,omitempty"`
}

// Snap is a snapshot as returned by an insertion.
type Snap struct {
	Version uint64 `json:"v"`
	Event   []byte `json:"ev"`
	History []byte `json:"hi"`
	Hyper   []byte `json:"hy"`
}

// Ack is what one client call of "node-add-concurrent" got back.
type Ack struct {
	Client int      `json:"client"`
	Seq    int      `json:"seq"`
	Events [][]byte `json:"events"`
	Snaps  []Snap   `json:"snaps,omitempty"`
	Err    string   `json:"err,omitempty"`
}

// Plan is the faulty-store plan of a node.
type Plan struct {
	KillBefore int `json:"kill_before,omitempty"` // SIGKILL self just before the k-th Mutate (1-based) reaches RocksDB
	KillAfter  int `json:"kill_after,omitempty"`  // SIGKILL self right after the k-th Mutate returned from RocksDB
	Gate       int `json:"gate,omitempty"`        // park the k-th Mutate until released
	KillDuring  int `json:"kill_during,omitempty"`   // SIGKILL self KillDelayUs microseconds after the k-th Mutate entered RocksDB (aimed inside the store write)
	KillDelayUs int `json:"kill_delay_us,omitempty"`
	FailAt     int `json:"fail_at,omitempty"`     // the k-th Mutate writes nothing and returns an I/O error (disk full, bad sector)
}

// NodeOpts configures a RaftNode (or server) opened in the child.
type NodeOpts struct {
	Dir               string   `json:"dir"`      // holds db/ and raft/
	DBDir             string   `json:"db_dir"`   // override of dir/db
	RaftDir           string   `json:"raft_dir"` // override of dir/raft
	ID                string   `json:"id"`
	Addr              string   `json:"addr"`
	Bootstrap         bool     `json:"bootstrap"`
	Seeds             []string `json:"seeds,omitempty"`
	TimeoutMs         int      `json:"timeout_ms"` // raft heartbeat/election/lease
	SnapshotThreshold uint64   `json:"snapshot_threshold"`
	TrailingLogs      uint64   `json:"trailing_logs"`
	Plan              Plan     `json:"plan"`
}

// Query is one read against a node.
type Query struct {
	Kind    string `json:"kind"` // member member-latest incr
	Digest  []byte `json:"digest,omitempty"`
	Event   []byte `json:"event,omitempty"`
	Version uint64 `json:"version,omitempty"`
	Start   uint64 `json:"start,omitempty"`
	End     uint64 `json:"end,omitempty"`
}

// Answer is what a Query produced.
type Answer struct {
	Err     string `json:"err,omitempty"`
	Panic   string `json:"panic,omitempty"`
	Timeout bool   `json:"timeout,omitempty"`
	Result  []byte `json:"result,omitempty"` // JSON of protocol.MembershipResult / IncrementalResponse
	Ms      int64  `json:"ms"`
}

// State is a node's replicated-state summary.
type State struct {
	Index, StateVersion, BalloonVersion uint64
	First, Last, Applied                uint64
	IsLeader                            bool
	RaftState                           string
	Leader                              string
	Mutates                             int // store writes performed by this node life (faulty store counter)
}

// Backup mirrors storage.BackupInfo.
type Backup struct {
	ID       int64  `json:"id"`
	Metadata string `json:"meta"`
}

// Req is a request to the child.
type Req struct {
	ID   int    `json:"id"`
	Op   string `json:"op"`
	Name string `json:"name,omitempty"`
	Path string `json:"path,omitempty"`

	StoreOps []StoreOp `json:"store_ops,omitempty"`
	LogOps   []LogOp   `json:"log_ops,omitempty"`
	NoSync   bool      `json:"nosync,omitempty"`

	Node    *NodeOpts `json:"node,omitempty"`
	Events  [][]byte  `json:"events,omitempty"`
	Queries []Query   `json:"queries,omitempty"`
	Wait    bool      `json:"wait,omitempty"`
	N       uint64    `json:"n,omitempty"`
	A, B, C uint64
	Chunks  [][]byte `json:"chunks,omitempty"`
	Tables  bool     `json:"tables,omitempty"` // include full table contents in dumps
	Args    []string `json:"args,omitempty"`   // op "cli": arguments of the qed command line
}

// Resp is the child's answer.
type Resp struct {
	ID  int    `json:"id"`
	Err string `json:"err,omitempty"`
	// ErrKind classifies insertion errors: "" | "not-leader" | "leadership-lost" | "enqueue-timeout" | "shutdown" | "other"
	ErrKind string `json:"err_kind,omitempty"`
	Ms      int64  `json:"ms"`

	StoreObs []StoreObs `json:"store_obs,omitempty"`
	LogObs   []LogObs   `json:"log_obs,omitempty"`
	Snaps    []Snap     `json:"snaps,omitempty"`
	Answers  []Answer   `json:"answers,omitempty"`
	State    *State     `json:"state,omitempty"`
	Backups  []Backup   `json:"backups,omitempty"`
	// Dump: table name -> sha256 of the ordered (key,value) stream, and entry counts
	DumpHash  map[string]string `json:"dump_hash,omitempty"`
	DumpCount map[string]int    `json:"dump_count,omitempty"`
	DumpKVs   map[string][]KV   `json:"dump_kvs,omitempty"`
	Chunks    [][]byte          `json:"chunks,omitempty"`
	Parked    bool              `json:"parked,omitempty"`
	Done      bool              `json:"done,omitempty"`
	Emitted   int               `json:"emitted,omitempty"` // snapshots seen on the node's snapshots channel
	Bad       int               `json:"bad,omitempty"`
	URL       string            `json:"url,omitempty"` // node-mgmt: base URL of the management API
	Acks      []Ack             `json:"acks,omitempty"`
}
