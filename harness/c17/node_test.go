package c17

import (
	"bytes"
	"fmt"
	"testing"
	"time"

	"pgregory.net/rapid"

	"verif/pbt"
	"verif/rig"
	"verif/xp"
)

type NH struct {
	Steps []rig.Step `json:"steps"`
}

const ruleNode = "hand-over from the insertion path to the sender: a single-node RaftNode (executor child) performs a rapid-drawn sequence of single adds and bulks (1-12 events); everything arriving on the channel that feeds the gossip sender is recorded (copied at arrival). Oracle: the sequence handed over equals the sequence of snapshots acknowledged to the client - each exactly once, same version, same three digests. Non-trivial: >=1 bulk of >=2 events. distinct = FNV-64 of the sequence."

func TestNodeHandsOver(t *testing.T) {
	rec := pbt.NewRec("C17", "TestNodeHandsOver", ruleNode)
	pbt.Run(t, rec, func(rt *rapid.T) NH {
		return NH{Steps: rig.DrawAdds(rt, rapid.IntRange(1, 8).Draw(rt, "calls"), 12, "s")}
	}, func(h NH, rec *pbt.Rec) error {
		un := func(f string, a ...interface{}) error { return &pbt.Unsettled{Why: fmt.Sprintf(f, a...)} }
		x, err := rig.StartExec("nodeexec")
		if err != nil {
			return un("executor: %v", err)
		}
		defer x.Kill()
		n, err := rig.OpenNode(x, "n", xp.NodeOpts{Dir: rig.WorkDir("c17n"), Bootstrap: true, TimeoutMs: 150, SnapshotThreshold: 1 << 30})
		if err != nil {
			return un("open: %v", err)
		}
		if err := n.WaitLeader(20 * time.Second); err != nil {
			return un("%v", err)
		}
		var acked []xp.Snap
		bulk := false
		for _, s := range h.Steps {
			var evs [][]byte
			for _, e := range s.Events {
				evs = append(evs, []byte(e))
			}
			res, err := n.Add(evs, s.Single && len(evs) == 1)
			if err != nil || res.Err != "" {
				return un("add: %v %v", err, res)
			}
			acked = append(acked, res.Snaps...)
			if len(evs) >= 2 {
				bulk = true
			}
		}
		r, err := x.Call(&xp.Req{Op: "node-handed", Name: "n"}, 30*time.Second)
		if err != nil {
			return un("%v", err)
		}
		handed := r.Snaps
		rec.Case(h, bulk)
		rec.Count("snapshots_acknowledged", int64(len(acked)))
		rec.Sample(len(h.Steps), h)
		count := map[uint64]int{}
		for _, s := range handed {
			count[s.Version]++
		}
		for _, a := range acked {
			if count[a.Version] == 0 {
				return fmt.Errorf("the snapshot of version %d was acknowledged to the client but never handed to the gossip sender (handed over: %d snapshots for %d acknowledged)", a.Version, len(handed), len(acked))
			}
			if count[a.Version] > 1 {
				return fmt.Errorf("the snapshot of version %d was handed to the gossip sender %d times", a.Version, count[a.Version])
			}
		}
		if len(handed) != len(acked) {
			return fmt.Errorf("%d snapshots handed to the sender, %d acknowledged", len(handed), len(acked))
		}
		for i := range acked {
			a, b := acked[i], handed[i]
			if a.Version != b.Version || !bytes.Equal(a.Event, b.Event) || !bytes.Equal(a.History, b.History) || !bytes.Equal(a.Hyper, b.Hyper) {
				return fmt.Errorf("hand-over %d differs from the acknowledged snapshot: version %d vs %d (content must be identical)", i, b.Version, a.Version)
			}
		}
		return nil
	})
}
