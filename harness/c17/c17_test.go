// C17 — every issued snapshot is emitted once, signed; the signature binds
// its content.
package c17

import (
	"bytes"
	"fmt"
	"sort"
	"sync"
	"testing"
	"time"

	"github.com/bbva/qed/crypto/sign"
	"github.com/bbva/qed/gossip"
	"github.com/bbva/qed/protocol"
	"github.com/bbva/qed/server"
	"pgregory.net/rapid"

	"verif/pbt"
	"verif/rig"
)

// Burst: feed N snapshots, then pause Gap (in halves of the flush interval).
type Burst struct {
	N   int `json:"n"`
	Gap int `json:"gap_half_intervals"`
}

type H struct {
	BatchSize  int     `json:"batch_size"`
	NumSenders int     `json:"senders"`
	IntervalMs int     `json:"interval_ms"`
	TTL        int     `json:"ttl"`
	Bursts     []Burst `json:"bursts"`
	Seed       byte    `json:"seed"`
}

const rule = "the real server.Sender (concurrent batchers, flush on full batch or on timer) publishing on the outgoing bus of a never-started gossip agent, with a fresh Ed25519 signer; rapid draws BatchSize 1-50, 1-4 batchers, a 10-20 ms flush interval and an arrival pattern of bursts (1..3*BatchSize snapshots) separated by gaps of 0, 1/2, 1 or 2 intervals. Oracle (schedule-independent): after feeding, within 5 s the multiset of emitted snapshots equals the multiset fed (nothing lost, nothing duplicated), every batch has 1..BatchSize entries, every message has the configured kind and TTL, every signature verifies under the public key over the snapshot's printed form, and for a sample of emitted snapshots NO single-field change (each digest: a byte flipped, truncated, extended; version +-1) and NO single-bit flip of the signature verifies. Non-trivial: more snapshots than one batch, a gap >= one interval (both flush branches) and >=2 batchers. distinct = FNV-64 of the case."

func TestSender(t *testing.T) {
	rig.Quiet()
	rec := pbt.NewRec("C17", "TestSender", rule, "schedules are whatever the Go scheduler produces; a loss needing one precise interleaving may be missed")
	pbt.Run(t, rec, func(rt *rapid.T) H {
		h := H{
			BatchSize:  rapid.OneOf(rapid.IntRange(1, 6), rapid.IntRange(1, 50)).Draw(rt, "batch"),
			NumSenders: rapid.IntRange(1, 4).Draw(rt, "senders"),
			IntervalMs: rapid.IntRange(10, 20).Draw(rt, "interval"),
			TTL:        rapid.IntRange(1, 4).Draw(rt, "ttl"),
			Seed:       rapid.Byte().Draw(rt, "seed"),
		}
		for i, n := 0, rapid.IntRange(1, 6).Draw(rt, "bursts"); i < n; i++ {
			h.Bursts = append(h.Bursts, Burst{N: rapid.IntRange(1, 3*h.BatchSize).Draw(rt, "n"), Gap: rapid.SampledFrom([]int{0, 1, 2, 4}).Draw(rt, "gap")})
		}
		return h
	}, exec)
}

type collector struct {
	mu   sync.Mutex
	msgs []*gossip.Message
}

func (c *collector) Subscribe(id int, ch <-chan *gossip.Message) {
	go func() {
		for m := range ch {
			c.mu.Lock()
			c.msgs = append(c.msgs, m)
			c.mu.Unlock()
		}
	}()
}

func key(s *protocol.Snapshot) string {
	return fmt.Sprintf("%d/%x/%x/%x", s.Version, s.EventDigest, s.HistoryDigest, s.HyperDigest)
}

func exec(h H, rec *pbt.Rec) error {
	conf := gossip.DefaultConfig()
	conf.BindAddr = "127.0.0.1:7946"
	conf.NodeName = "c17"
	conf.Role = "server"
	agent, err := gossip.NewAgentFromConfig(conf)
	if err != nil {
		return &pbt.Unsettled{Why: "agent: " + err.Error()}
	}
	signer := sign.NewEd25519Signer()
	col := &collector{}
	agent.Out.Subscribe(gossip.BatchMessageType, col, 1<<16)
	snd := server.NewSender(agent, signer, h.BatchSize, h.TTL, h.NumSenders)
	interval := time.Duration(h.IntervalMs) * time.Millisecond
	snd.Interval = interval
	ch := make(chan *protocol.Snapshot, 1<<12)
	snd.Start(ch)
	defer snd.Stop()

	fed := map[string]int{}
	total := 0
	longGap := false
	for bi, b := range h.Bursts {
		for i := 0; i < b.N; i++ {
			d := func(tag byte) []byte {
				out := make([]byte, 32)
				for j := range out {
					out[j] = h.Seed + tag + byte(total*7+j)
				}
				return out
			}
			s := &protocol.Snapshot{EventDigest: d(1), HistoryDigest: d(2), HyperDigest: d(3), Version: uint64(total)}
			fed[key(s)]++
			total++
			ch <- s
		}
		if b.Gap > 0 && bi < len(h.Bursts)-1 {
			time.Sleep(time.Duration(b.Gap) * interval / 2)
			if b.Gap >= 2 {
				longGap = true
			}
		}
	}
	// wait for everything to come out
	deadline := time.Now().Add(5 * time.Second)
	count := func() int {
		col.mu.Lock()
		defer col.mu.Unlock()
		n := 0
		for _, m := range col.msgs {
			var b protocol.BatchSnapshots
			if b.Decode(m.Payload) == nil {
				n += len(b.Snapshots)
			}
		}
		return n
	}
	for count() < total && time.Now().Before(deadline) {
		time.Sleep(5 * time.Millisecond)
	}
	time.Sleep(3 * interval) // anything emitted twice would show up now
	col.mu.Lock()
	msgs := append([]*gossip.Message{}, col.msgs...)
	col.mu.Unlock()

	got := map[string]int{}
	var sample []*protocol.SignedSnapshot
	for mi, m := range msgs {
		if m.Kind != gossip.BatchMessageType {
			return fmt.Errorf("message %d has kind %d", mi, m.Kind)
		}
		if m.TTL != h.TTL {
			return fmt.Errorf("message %d leaves the sender with TTL %d, configured %d", mi, m.TTL, h.TTL)
		}
		var b protocol.BatchSnapshots
		if err := b.Decode(m.Payload); err != nil {
			return fmt.Errorf("message %d: undecodable batch: %v", mi, err)
		}
		if len(b.Snapshots) < 1 || len(b.Snapshots) > h.BatchSize {
			return fmt.Errorf("a batch of %d snapshots left the sender; configured batch size is %d", len(b.Snapshots), h.BatchSize)
		}
		for _, ss := range b.Snapshots {
			if ss == nil || ss.Snapshot == nil {
				return fmt.Errorf("batch %d carries an empty entry", mi)
			}
			got[key(ss.Snapshot)]++
			ok, _ := signer.Verify([]byte(fmt.Sprintf("%v", ss.Snapshot)), ss.Signature)
			if !ok {
				return fmt.Errorf("snapshot version %d leaves the sender with a signature that does not verify under the server's key", ss.Snapshot.Version)
			}
			if len(sample) < 6 || ss.Snapshot.Version%17 == 0 && len(sample) < 12 {
				sample = append(sample, ss)
			}
		}
	}
	var keys []string
	for k := range fed {
		keys = append(keys, k)
	}
	sort.Strings(keys)
	for _, k := range keys {
		if got[k] == 0 {
			return fmt.Errorf("a snapshot handed to the sender never left it within 5 s (fed %d, emitted %d): %s", total, count(), k[:20])
		}
		if got[k] > fed[k] {
			return fmt.Errorf("a snapshot handed to the sender once left it %d times: %s", got[k], k[:20])
		}
	}
	for k := range got {
		if fed[k] == 0 {
			return fmt.Errorf("the sender emitted a snapshot it was never given: %s", k[:20])
		}
	}
	// the signature binds every field
	var rejected int64
	for _, ss := range sample {
		s := ss.Snapshot
		verify := func(x *protocol.Snapshot, sig []byte) bool {
			ok, _ := signer.Verify([]byte(fmt.Sprintf("%v", x)), sig)
			return ok
		}
		mutate := func(name string, f func(c *protocol.Snapshot)) error {
			c := &protocol.Snapshot{EventDigest: append([]byte{}, s.EventDigest...), HistoryDigest: append([]byte{}, s.HistoryDigest...), HyperDigest: append([]byte{}, s.HyperDigest...), Version: s.Version}
			f(c)
			if key(c) == key(s) {
				return nil
			}
			if verify(c, ss.Signature) {
				return fmt.Errorf("signature of snapshot version %d still verifies after changing %s", s.Version, name)
			}
			rejected++
			return nil
		}
		for fi, get := range []func(c *protocol.Snapshot) *[]byte{
			func(c *protocol.Snapshot) *[]byte { return (*[]byte)(&c.EventDigest) },
			func(c *protocol.Snapshot) *[]byte { return (*[]byte)(&c.HistoryDigest) },
			func(c *protocol.Snapshot) *[]byte { return (*[]byte)(&c.HyperDigest) },
		} {
			fname := []string{"EventDigest", "HistoryDigest", "HyperDigest"}[fi]
			for pos := 0; pos < 32; pos += 5 {
				p := pos
				if err := mutate(fmt.Sprintf("%s byte %d", fname, p), func(c *protocol.Snapshot) { (*get(c))[p] ^= 1 << uint(p%8) }); err != nil {
					return err
				}
			}
			if err := mutate(fname+" (truncated)", func(c *protocol.Snapshot) { *get(c) = (*get(c))[:31] }); err != nil {
				return err
			}
			if err := mutate(fname+" (extended)", func(c *protocol.Snapshot) { *get(c) = append(*get(c), 0) }); err != nil {
				return err
			}
			if err := mutate(fname+" (emptied)", func(c *protocol.Snapshot) { *get(c) = nil }); err != nil {
				return err
			}
		}
		if err := mutate("Version+1", func(c *protocol.Snapshot) { c.Version++ }); err != nil {
			return err
		}
		if err := mutate("Version-1", func(c *protocol.Snapshot) { c.Version-- }); err != nil {
			return err
		}
		// moving bytes between adjacent fields must not preserve the printed form
		if err := mutate("field boundary", func(c *protocol.Snapshot) {
			c.EventDigest = append(c.EventDigest, c.HistoryDigest[0])
			c.HistoryDigest = c.HistoryDigest[1:]
		}); err != nil {
			return err
		}
		for bit := 0; bit < len(ss.Signature)*8; bit++ {
			sig := append([]byte{}, ss.Signature...)
			sig[bit/8] ^= 1 << uint(bit%8)
			if bytes.Equal(sig, ss.Signature) {
				continue
			}
			if verify(s, sig) {
				return fmt.Errorf("snapshot version %d verifies with bit %d of its signature flipped", s.Version, bit)
			}
			rejected++
		}
	}
	cls := []string{}
	if longGap {
		cls = append(cls, "gap>=interval")
	}
	if total > h.BatchSize {
		cls = append(cls, "fed>batch")
	}
	rec.Case(h, total > h.BatchSize && longGap && h.NumSenders >= 2, cls...)
	rec.Count("snapshots_fed", int64(total))
	rec.Count("batches", int64(len(msgs)))
	rec.Count("alterations_rejected", rejected)
	rec.Sample(total, h)
	return nil
}
