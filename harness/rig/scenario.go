package rig

import (
	"fmt"
	"time"

	"verif/pbt"
	"verif/refmodel"
	"verif/xp"
)

// Step is one step of a single-node history.
type Step struct {
	Op     string   `json:"op"` // add | restart | crash | snapshot | check
	Events []string `json:"events,omitempty"`
	Single bool     `json:"single,omitempty"`
	Pos    string   `json:"pos,omitempty"` // crash: "before" | "after" the store write of this add
}

// NodeHistory is a workload on one RaftNode with restarts and crash points.
type NodeHistory struct {
	Steps []Step `json:"steps"`
}

// Oracle selects which clauses a run enforces; anything else that goes wrong
// makes the case inconclusive for this property.
type Oracle struct {
	Dense      bool // C05: versions dense, in order, once; event digest; CurrentVersion of proofs
	RefDigests bool // C07/C08: snapshots equal the reference model's
	Proofs     bool // proofs verify against issued snapshots
	CleanExit  bool // C08: close returns, child exits 0, no signal
	Recovery   bool // C07: after a crash the state is a prefix and the in-flight entry is applied once
	Limit      int  // query sample size
}

// Stats reports what a run did.
type Stats struct {
	Adds, Events, Restarts, Crashes, Snapshots, Queries int
	CrashPoints                                         []string
}

func evs(ss []string) [][]byte {
	out := make([][]byte, len(ss))
	for i, s := range ss {
		out[i] = []byte(s)
	}
	return out
}

func digests(ss []string) []refmodel.D {
	out := make([]refmodel.D, len(ss))
	for i, s := range ss {
		out[i] = refmodel.EventDigest([]byte(s))
	}
	return out
}

func unsettled(format string, a ...interface{}) error {
	return &pbt.Unsettled{Why: fmt.Sprintf(format, a...)}
}

// RunNodeHistory executes h on a fresh single-node RaftNode (in executor
// children, one per node life) under oracle o.
func RunNodeHistory(h NodeHistory, o Oracle, binary string) (*Stats, *refmodel.Log, error) {
	st := &Stats{}
	m := refmodel.NewLog()
	dir := WorkDir("node")
	if o.Limit == 0 {
		o.Limit = 12
	}
	var x *Exec
	var n *Node
	defer func() {
		if x != nil {
			x.Kill()
		}
	}()
	pendingReplay := 0 // in-flight entries whose outcome the next start must show
	replayWrites := 0  // store writes the next start performs on its own (replay of an entry whose write never happened)
	var pending [][]string

	open := func(from int) error {
		// plan: count store writes until the next crash step
		plan := xp.Plan{}
		k := replayWrites
		for i := from; i < len(h.Steps); i++ {
			s := h.Steps[i]
			if s.Op == "add" {
				k++
			}
			if s.Op == "crash" {
				k++
				switch s.Pos {
				case "before":
					plan.KillBefore = k
				case "fail":
					plan.FailAt = k
				default:
					plan.KillAfter = k
				}
				break
			}
			if s.Op == "restart" {
				break
			}
		}
		var err error
		x, err = StartExec(binary)
		if err != nil {
			return unsettled("cannot start executor: %v", err)
		}
		n, err = OpenNode(x, "n", xp.NodeOpts{Dir: dir, Bootstrap: true, TimeoutMs: 150, Plan: plan, SnapshotThreshold: 1 << 30, TrailingLogs: 0})
		if err != nil {
			if d, ok := err.(*Death); ok {
				if o.CleanExit || o.Recovery {
					return fmt.Errorf("node died while (re)opening on its data: %v", d)
				}
				return unsettled("node died while opening: %v", d)
			}
			if o.CleanExit || o.Recovery {
				return fmt.Errorf("node cannot be (re)opened on its data: %v", err)
			}
			return unsettled("node cannot be opened: %v", err)
		}
		if err := n.WaitLeader(20 * time.Second); err != nil {
			if _, ok := err.(*Death); ok && (o.Recovery || o.CleanExit) {
				return fmt.Errorf("node died after (re)opening: %v", err)
			}
			return unsettled("no leadership: %v", err)
		}
		// entries that were in flight when the previous life ended
		if pendingReplay > 0 {
			want := uint64(m.Len())
			for _, p := range pending {
				want += uint64(len(p))
			}
			stt, err := n.WaitVersion(want, 20*time.Second)
			if err != nil {
				if o.Recovery {
					have := uint64(0)
					if stt != nil {
						have = stt.BalloonVersion
					}
					return fmt.Errorf("after the crash and restart the node serves version %d; the committed log holds %d acknowledged events plus an in-flight entry of %d: expected %d (each entry applied exactly once): %v", have, m.Len(), want-uint64(m.Len()), want, err)
				}
				if o.Dense && stt != nil && stt.BalloonVersion > want {
					return fmt.Errorf("after the crash and restart the log is at version %d although only %d events were accepted (incl. the in-flight entry): versions were skipped or an entry was applied twice", stt.BalloonVersion, want)
				}
				return unsettled("recovery: %v", err)
			}
			for _, p := range pending {
				m.AddBulk(digests(p))
			}
			pending, pendingReplay, replayWrites = nil, 0, 0
		} else if o.Recovery || o.Dense {
			stt, err := n.State()
			if err != nil {
				return unsettled("state: %v", err)
			}
			if stt.BalloonVersion != uint64(m.Len()) {
				err := fmt.Errorf("after restart the node is at version %d, %d events were accepted", stt.BalloonVersion, m.Len())
				if o.Dense || o.Recovery || o.RefDigests {
					return err
				}
			}
		}
		return nil
	}

	check := func() error {
		if m.Len() == 0 {
			return nil
		}
		if !o.Proofs {
			if !o.Dense {
				return nil
			}
			// C05 only: the current version reported by proofs = accepted - 1
			cur := uint64(m.Len() - 1)
			e := m.Events[int(cur)/2]
			as, err := n.Query([]xp.Query{{Kind: "member-latest", Digest: Dg(e)}, {Kind: "member", Digest: Dg(m.Events[0]), Version: cur}})
			if err != nil {
				return unsettled("queries: %v", err)
			}
			st.Queries += len(as)
			for _, a := range as {
				if a.Err != "" || a.Panic != "" || a.Timeout {
					return unsettled("query failed: %s%s", a.Err, a.Panic)
				}
				mr, _, err := DecodeMember(a)
				if err != nil {
					return unsettled("%v", err)
				}
				if mr.CurrentVersion != cur {
					return fmt.Errorf("a proof reports current version %d; %d events were accepted, so it must be %d", mr.CurrentVersion, m.Len(), cur)
				}
			}
			return nil
		}
		k, err := CheckNode(n, m, o.Limit)
		st.Queries += k
		if err != nil {
			if _, ok := err.(*Death); ok {
				return unsettled("node died during queries: %v", err)
			}
			return err
		}
		return nil
	}

	if err := open(0); err != nil {
		return st, m, err
	}
	for si := 0; si < len(h.Steps); si++ {
		s := h.Steps[si]
		switch s.Op {
		case "add", "crash":
			res, err := n.Add(evs(s.Events), s.Single && len(s.Events) == 1)
			if err != nil {
				d, _ := err.(*Death)
				if s.Op == "crash" && d != nil && !d.Timeout && (d.Signal == "killed" || s.Pos == "fail") {
					// the planned crash point was reached
					st.Crashes++
					st.CrashPoints = append(st.CrashPoints, fmt.Sprintf("step %d %s store write (bulk of %d)", si, s.Pos, len(s.Events)))
					pending = append(pending, s.Events)
					pendingReplay = 1
					replayWrites = 0
					if s.Pos == "before" || s.Pos == "fail" {
						replayWrites = 1
					}
					x = nil
					if err := open(si + 1); err != nil {
						return st, m, err
					}
					if err := check(); err != nil {
						if o.Recovery {
							return st, m, fmt.Errorf("after crash %s the store write of step %d and restart: %v", s.Pos, si, err)
						}
						return st, m, err
					}
					continue
				}
				if (o.CleanExit || o.Recovery) && (st.Restarts > 0 || st.Crashes > 0) {
					// a node that was stopped (or crashed) and restarted must behave like one that never was
					return st, m, fmt.Errorf("step %d (%s): the restarted node died: %v", si, s.Op, err)
				}
				return st, m, unsettled("node died during step %d (%s): %v", si, s.Op, err)
			}
			if s.Op == "crash" && s.Pos == "fail" && res.Err != "" {
				// the store refused the write and the node chose to survive and report the error:
				// the event is not accepted, and the node must not have consumed its versions
				time.Sleep(150 * time.Millisecond) // a node that gives up does so on its FSM goroutine, a moment after answering
				stt, serr := n.State()
				if d, ok := serr.(*Death); ok && !d.Timeout {
					// the node did not survive after all: same as a crash before the write
					st.Crashes++
					st.CrashPoints = append(st.CrashPoints, fmt.Sprintf("step %d store write refused (bulk of %d), node gave up", si, len(s.Events)))
					pending = append(pending, s.Events)
					pendingReplay, replayWrites = 1, 1
					x = nil
					if err := open(si + 1); err != nil {
						return st, m, err
					}
					if err := check(); err != nil {
						if o.Recovery {
							return st, m, fmt.Errorf("after the refused store write of step %d and restart: %v", si, err)
						}
						return st, m, err
					}
					continue
				}
				if serr != nil {
					return st, m, unsettled("state after a refused store write: %v", serr)
				}
				st.Crashes++
				st.CrashPoints = append(st.CrashPoints, fmt.Sprintf("step %d store write refused (bulk of %d), node survived", si, len(s.Events)))
				if stt.BalloonVersion != uint64(m.Len()) && (o.Dense || o.Recovery) {
					return st, m, fmt.Errorf("step %d: the store refused the write of an insertion of %d event(s) (injected I/O error); the node answered %q and keeps serving with its version counter at %d although only %d events were accepted: the refused events' versions are consumed and will be skipped", si, len(s.Events), res.Err, stt.BalloonVersion, m.Len())
				}
				continue
			}
			if s.Op == "crash" {
				return st, m, unsettled("planned crash point of step %d was not reached", si)
			}
			if res.Err != "" {
				return st, m, unsettled("add of step %d refused: %s", si, res.Err)
			}
			want := m.AddBulk(digests(s.Events))
			st.Adds++
			st.Events += len(s.Events)
			if o.Dense {
				if len(res.Snaps) != len(want) {
					return st, m, fmt.Errorf("step %d: %d snapshots for %d events", si, len(res.Snaps), len(want))
				}
				for i := range want {
					if res.Snaps[i].Version != want[i].Version {
						return st, m, fmt.Errorf("step %d: event %d of the request got version %d; %d events were accepted before it, so it must get %d", si, i, res.Snaps[i].Version, want[i].Version, want[i].Version)
					}
					if string(res.Snaps[i].Event) != string(want[i].EventDigest[:]) {
						return st, m, fmt.Errorf("step %d: snapshot of version %d carries the digest of another event", si, want[i].Version)
					}
				}
			}
			if o.RefDigests {
				if err := CheckAck(res.Snaps, want); err != nil {
					return st, m, fmt.Errorf("step %d: %v", si, err)
				}
			}
		case "restart":
			cerr, err := n.Close(true)
			if err != nil {
				if o.CleanExit {
					return st, m, fmt.Errorf("step %d: closing the node killed the process: %v", si, err)
				}
				return st, m, unsettled("close: %v", err)
			}
			if cerr != "" && o.CleanExit {
				return st, m, fmt.Errorf("step %d: Close returned %q", si, cerr)
			}
			d := x.Exit()
			if (d.ExitCode != 0 || d.Signal != "") && o.CleanExit {
				return st, m, fmt.Errorf("step %d: process did not end cleanly after Close: %v", si, d)
			}
			x = nil
			st.Restarts++
			if err := open(si + 1); err != nil {
				return st, m, err
			}
			if err := check(); err != nil {
				return st, m, err
			}
		case "snapshot":
			r, err := n.Simple("node-force-snapshot", 0, "")
			if err != nil {
				return st, m, unsettled("snapshot: %v", err)
			}
			if r.Err == "" {
				st.Snapshots++
			}
		case "check":
			if err := check(); err != nil {
				return st, m, err
			}
		}
	}
	if err := check(); err != nil {
		return st, m, err
	}
	// final clean stop
	cerr, err := n.Close(true)
	if err != nil {
		if o.CleanExit {
			return st, m, fmt.Errorf("final close killed the process: %v", err)
		}
		return st, m, nil
	}
	if cerr != "" && o.CleanExit {
		return st, m, fmt.Errorf("final Close returned %q", cerr)
	}
	if d := x.Exit(); (d.ExitCode != 0 || d.Signal != "") && o.CleanExit {
		return st, m, fmt.Errorf("process did not end cleanly after the final Close: %v", d)
	}
	x = nil
	return st, m, nil
}
