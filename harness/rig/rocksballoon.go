package rig

import (
	"bytes"
	"fmt"
	"time"

	"verif/refmodel"
	"verif/xp"
)

// RocksBalloonStats is what RunRocksBalloon explored.
type RocksBalloonStats struct {
	Snapshots int64
	Pairs     int64 // membership (event, query version) pairs judged
	Later     int64 // ... of which q lies after the event's insertion
	Incr      int64 // consistency pairs judged
	Reopens   int64
}

// RunRocksBalloon executes a LogHistory on a real Balloon over a real
// RocksDBStore held by an executor child (ops "store-balloon-*"). A restart
// point is close(balloon) + close(store) + open(store) + NewBalloon on the same
// directory — the durable twin of B.Restart. checkSnaps compares every returned
// snapshot with the reference trees (C04); checkProofs queries the balloon after
// every call and judges the wire-form answers against the model's digests
// (C01 / C03 acceptance). Anything that is not one of these two clauses
// (executor cannot start, the child does not end cleanly) is inconclusive.
func RunRocksBalloon(h LogHistory, checkSnaps, checkProofs bool) (*RocksBalloonStats, *refmodel.Log, error) {
	st := &RocksBalloonStats{}
	x, err := StartExec("nodeexec")
	if err != nil {
		return st, nil, unsettled("cannot start executor: %v", err)
	}
	defer x.Kill()
	dir := WorkDir("rocksballoon")
	if r, err := x.Call(&xp.Req{Op: "store-open", Name: "s", Path: dir}, 60*time.Second); err != nil || r.Err != "" {
		return st, nil, unsettled("store-open: %v %v", err, r)
	}
	if r, err := x.Call(&xp.Req{Op: "store-balloon-open", Name: "s"}, 60*time.Second); err != nil || r.Err != "" {
		return st, nil, fmt.Errorf("a balloon cannot be opened on an empty RocksDB store: %v %+v", err, r)
	}
	m := refmodel.NewLog()
	ds := h.Ds()
	rs := map[int]bool{}
	for _, r := range h.Restarts {
		rs[r] = true
	}
	off := 0
	for ci, c := range h.Calls {
		if rs[ci] {
			r, err := x.Call(&xp.Req{Op: "store-balloon-reopen", Name: "s"}, 120*time.Second)
			if err != nil {
				return st, m, fmt.Errorf("closing and reopening the store and the balloon before call %d (log at %d events) killed the process: %v", ci, m.Len(), err)
			}
			if r.Err != "" {
				return st, m, fmt.Errorf("closing and reopening the store and the balloon before call %d (log at %d events): %s", ci, m.Len(), r.Err)
			}
			if r.State == nil || r.State.BalloonVersion != uint64(m.Len()) {
				return st, m, fmt.Errorf("balloon reopened on a store holding %d events reports next version %+v", m.Len(), r.State)
			}
			st.Reopens++
		}
		if c.N <= 0 || off+c.N > len(ds) {
			return st, m, fmt.Errorf("malformed history: call %d", ci)
		}
		part := ds[off : off+c.N]
		off += c.N
		evs := make([][]byte, len(part))
		for i := range part {
			evs[i] = Dg(part[i])
		}
		r, err := x.Call(&xp.Req{Op: "store-balloon-add", Name: "s", Events: evs, Wait: c.Bulk}, 300*time.Second)
		if err != nil {
			return st, m, fmt.Errorf("call %d (%v) killed the process holding the balloon: %v", ci, c, err)
		}
		if r.Err != "" {
			return st, m, fmt.Errorf("call %d (%v) on the RocksDB-backed balloon: %s", ci, c, r.Err)
		}
		want := m.AddBulk(part)
		if len(r.Snaps) != len(want) {
			return st, m, fmt.Errorf("call %d returned %d snapshots for %d events", ci, len(r.Snaps), len(want))
		}
		if checkSnaps {
			for i := range want {
				g := r.Snaps[i]
				if g.Version != want[i].Version || !bytes.Equal(g.Event, want[i].EventDigest[:]) {
					return st, m, fmt.Errorf("call %d: snapshot %d is (v%d, event %x), reference (v%d, event %x)", ci, i, g.Version, g.Event, want[i].Version, want[i].EventDigest)
				}
				if !bytes.Equal(g.History, want[i].HistoryDigest[:]) {
					return st, m, fmt.Errorf("v%d (RocksDB-backed balloon, %d reopen(s) so far): history digest %x differs from the reference tree's %x", g.Version, st.Reopens, g.History, want[i].HistoryDigest)
				}
				if h.Distinct && !bytes.Equal(g.Hyper, want[i].HyperDigest[:]) {
					return st, m, fmt.Errorf("v%d (RocksDB-backed balloon, %d reopen(s) so far): hyper digest %x differs from the reference tree's %x", g.Version, st.Reopens, g.Hyper, want[i].HyperDigest)
				}
				st.Snapshots++
			}
		}
		if checkProofs {
			if err := rocksProofs(x, m, ci == len(h.Calls)-1, st); err != nil {
				return st, m, err
			}
		}
	}
	if r, err := x.Call(&xp.Req{Op: "store-close", Name: "s"}, 60*time.Second); err != nil || r.Err != "" {
		return st, m, unsettled("closing the store at the end: %v %+v", err, r)
	}
	if d := x.Exit(); d.ExitCode != 0 || d.Signal != "" {
		return st, m, unsettled("process holding the store did not end cleanly: %v", d)
	}
	return st, m, nil
}

// rocksProofs: after a call, every event at q = current (strided above 60
// events); at the end of the history all (event, q) pairs of logs up to 32
// events, boundary pairs of larger ones, and consistency pairs.
func rocksProofs(x *Exec, m *refmodel.Log, last bool, st *RocksBalloonStats) error {
	n := m.Len()
	cur := uint64(n - 1)
	type mk struct {
		e    refmodel.D
		q    uint64
		i, j uint64
		inc  bool
	}
	var qs []xp.Query
	var meta []mk
	member := func(v int, q uint64) {
		e := m.Events[v]
		if m.Hyper[e] > q { // re-inserted later: queries below the reported version legitimately fail
			return
		}
		qs = append(qs, xp.Query{Kind: "member", Digest: Dg(e), Version: q})
		meta = append(meta, mk{e: e, q: q})
	}
	stride := 1
	if n > 60 {
		stride = n / 40
	}
	for v := 0; v < n; v += stride {
		member(v, cur)
	}
	if last {
		if n <= 32 {
			for v := 0; v < n; v++ {
				for q := v; q < n; q++ {
					member(v, uint64(q))
				}
			}
			for i := 0; i < n; i++ {
				for j := i; j < n; j++ {
					qs = append(qs, xp.Query{Kind: "incr", Start: uint64(i), End: uint64(j)})
					meta = append(meta, mk{i: uint64(i), j: uint64(j), inc: true})
				}
			}
		} else {
			for v := 0; v < n; v += stride {
				rep := m.Hyper[m.Events[v]]
				for _, q := range uniq([]uint64{rep, rep + 1, (rep + cur) / 2, cur - 1}) {
					if q <= cur {
						member(v, q)
					}
				}
			}
			pts := uniq([]uint64{0, 1, 2, cur / 2, cur/2 + 1, cur - 1, cur})
			for _, i := range pts {
				for _, j := range pts {
					if i <= j && j <= cur {
						qs = append(qs, xp.Query{Kind: "incr", Start: i, End: j})
						meta = append(meta, mk{i: i, j: j, inc: true})
					}
				}
			}
		}
	}
	if len(qs) == 0 {
		return nil
	}
	r, err := x.Call(&xp.Req{Op: "store-balloon-query", Name: "s", Queries: qs, N: 60000}, 180*time.Second)
	if err != nil {
		return fmt.Errorf("queries at version %d killed the process holding the balloon: %v", cur, err)
	}
	if r.Err != "" || len(r.Answers) != len(qs) {
		return fmt.Errorf("queries at version %d: %s (%d answers for %d queries)", cur, r.Err, len(r.Answers), len(qs))
	}
	for k, mt := range meta {
		if mt.inc {
			if err := VerifyIncr(r.Answers[k], m, mt.i, mt.j); err != nil {
				return fmt.Errorf("RocksDB-backed balloon: %v", err)
			}
			st.Incr++
		} else {
			if err := VerifyMember(r.Answers[k], m, mt.e, mt.q, cur); err != nil {
				return fmt.Errorf("RocksDB-backed balloon: %v", err)
			}
			st.Pairs++
			if mt.q > m.Hyper[mt.e] {
				st.Later++
			}
		}
	}
	return nil
}
