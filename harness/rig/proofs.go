package rig

import (
	"encoding/json"
	"fmt"
	"sync"

	"github.com/bbva/qed/api/apihttp"
	"github.com/bbva/qed/balloon"
	"github.com/bbva/qed/consensus"
	"github.com/bbva/qed/crypto/hashing"
	"github.com/bbva/qed/protocol"

	"verif/refmodel"
)

// ClientSnapshot is the snapshot a client verifies a membership answer
// against: history digest of the queried version, hyper digest of the
// current version — both taken from what the log itself issued.
func (b *B) ClientSnapshot(queryV, currentV uint64) (*balloon.Snapshot, bool) {
	if queryV >= uint64(len(b.Snaps)) || currentV >= uint64(len(b.Snaps)) {
		return nil, false
	}
	return &balloon.Snapshot{
		HistoryDigest: b.Snaps[queryV].HistoryDigest,
		HyperDigest:   b.Snaps[currentV].HyperDigest,
		Version:       queryV,
	}, true
}

// WireMembership sends a proof through the public JSON form and back, the
// way api/apihttp and client do.
func WireMembership(p *balloon.MembershipProof) (*balloon.MembershipProof, *protocol.MembershipResult, error) {
	mr := protocol.ToMembershipResult(nil, p)
	raw, err := json.Marshal(mr)
	if err != nil {
		return nil, nil, err
	}
	var back *protocol.MembershipResult
	if err := json.Unmarshal(raw, &back); err != nil {
		return nil, nil, err
	}
	return protocol.ToBalloonProof(back, hashing.NewSha256Hasher), back, nil
}

// WireIncremental does the same for consistency proofs.
func WireIncremental(p *balloon.IncrementalProof) (*balloon.IncrementalProof, *protocol.IncrementalResponse, error) {
	ir := protocol.ToIncrementalResponse(p)
	raw, err := json.Marshal(ir)
	if err != nil {
		return nil, nil, err
	}
	var back *protocol.IncrementalResponse
	if err := json.Unmarshal(raw, &back); err != nil {
		return nil, nil, err
	}
	return protocol.ToIncrementalProof(back, hashing.NewSha256Hasher), back, nil
}

// CheckMembership is C01's oracle for one (event, query version) pair at the
// log's present state. m is the model at the same point.
func (b *B) CheckMembership(m *refmodel.Log, e refmodel.D, q uint64, wire bool) error {
	cur := uint64(m.Len() - 1)
	p, err := b.Bal.QueryDigestMembershipConsistency(Dg(e), q)
	if err != nil {
		return fmt.Errorf("membership(e=%x…, q=%d) at current=%d: error %v", e[:4], q, cur, err)
	}
	return b.judgeMembership(m, p, e, q, cur, wire)
}

func (b *B) judgeMembership(m *refmodel.Log, p *balloon.MembershipProof, e refmodel.D, q, cur uint64, wire bool) error {
	tag := fmt.Sprintf("membership(e=%x…, q=%d) at current=%d", e[:4], q, cur)
	if p == nil {
		return fmt.Errorf("%s: nil proof", tag)
	}
	if !p.Exists {
		return fmt.Errorf("%s: answers Exists=false for an inserted event", tag)
	}
	if p.CurrentVersion != cur {
		return fmt.Errorf("%s: CurrentVersion=%d, accepted-1=%d", tag, p.CurrentVersion, cur)
	}
	if p.QueryVersion != q {
		return fmt.Errorf("%s: QueryVersion=%d", tag, p.QueryVersion)
	}
	ok := false
	for _, v := range m.Versions[e] {
		if v == p.ActualVersion {
			ok = true
		}
	}
	if !ok {
		return fmt.Errorf("%s: ActualVersion=%d is not a version at which the event was inserted (%v)", tag, p.ActualVersion, m.Versions[e])
	}
	if p.ActualVersion > q {
		return fmt.Errorf("%s: ActualVersion=%d later than the queried version", tag, p.ActualVersion)
	}
	snap, _ := b.ClientSnapshot(q, cur)
	if !p.DigestVerify(Dg(e), snap) {
		return fmt.Errorf("%s: proof does not verify against history digest of v%d and hyper digest of v%d", tag, q, cur)
	}
	if wire {
		wp, _, err := WireMembership(p)
		if err != nil {
			return fmt.Errorf("%s: wire form: %v", tag, err)
		}
		if !wp.DigestVerify(Dg(e), snap) {
			return fmt.Errorf("%s: proof verifies as an object but not after the JSON wire form", tag)
		}
	}
	return nil
}

// CheckLatestMembership is the same oracle through QueryDigestMembership
// (no version given: q = current).
func (b *B) CheckLatestMembership(m *refmodel.Log, e refmodel.D, wire bool) error {
	cur := uint64(m.Len() - 1)
	p, err := b.Bal.QueryDigestMembership(Dg(e))
	if err != nil {
		return fmt.Errorf("membership(e=%x…, latest) at current=%d: error %v", e[:4], cur, err)
	}
	return b.judgeMembership(m, p, e, cur, cur, wire)
}

// CheckConsistency is C03's acceptance oracle for one (i, j).
func (b *B) CheckConsistency(i, j uint64, wire bool) error {
	p, err := b.Bal.QueryConsistency(i, j)
	if err != nil {
		return fmt.Errorf("consistency(%d,%d): error %v", i, j, err)
	}
	if p.Start != i || p.End != j {
		return fmt.Errorf("consistency(%d,%d): proof names (%d,%d)", i, j, p.Start, p.End)
	}
	if !p.Verify(b.Snaps[i], b.Snaps[j]) {
		return fmt.Errorf("consistency(%d,%d): genuine proof rejected against snapshots %d and %d", i, j, i, j)
	}
	if wire {
		wp, _, err := WireIncremental(p)
		if err != nil {
			return err
		}
		if !wp.Verify(b.Snaps[i], b.Snaps[j]) {
			return fmt.Errorf("consistency(%d,%d): verifies as an object but not after the JSON wire form", i, j)
		}
	}
	return nil
}

// ------------------------------------------------------------ HTTP adapter

// API serves a balloon through api/apihttp's ClientApi, applying mutations
// like the FSM does. It is the "honest log" of the HTTP tiers.
type API struct {
	mu sync.Mutex
	B  *B
	// Tamper, when set, may alter a membership answer before it is returned.
	TamperMembership  func(*balloon.MembershipProof) *balloon.MembershipProof
	TamperIncremental func(*balloon.IncrementalProof) *balloon.IncrementalProof
}

var _ apihttp.ClientApi = (*API)(nil)

func (a *API) Add(event []byte) (*balloon.Snapshot, error) {
	s, err := a.AddBulk([][]byte{event})
	if err != nil {
		return nil, err
	}
	return s[0], nil
}

func (a *API) AddBulk(bulk [][]byte) ([]*balloon.Snapshot, error) {
	a.mu.Lock()
	defer a.mu.Unlock()
	if len(bulk) == 0 { // RaftNode.AddBulk refuses empty bulks before they reach the balloon
		return nil, fmt.Errorf("unable to add an empty bulk of events")
	}
	ds := make([]refmodel.D, len(bulk))
	for i, e := range bulk {
		ds[i] = refmodel.EventDigest(e)
	}
	return a.B.Apply(true, ds)
}

func (a *API) tm(p *balloon.MembershipProof, err error) (*balloon.MembershipProof, error) {
	if err == nil && a.TamperMembership != nil {
		p = a.TamperMembership(p)
	}
	return p, err
}

func (a *API) QueryDigestMembershipConsistency(d hashing.Digest, v uint64) (*balloon.MembershipProof, error) {
	return a.tm(a.B.Bal.QueryDigestMembershipConsistency(d, v))
}
func (a *API) QueryMembershipConsistency(e []byte, v uint64) (*balloon.MembershipProof, error) {
	return a.tm(a.B.Bal.QueryMembershipConsistency(e, v))
}
func (a *API) QueryDigestMembership(d hashing.Digest) (*balloon.MembershipProof, error) {
	return a.tm(a.B.Bal.QueryDigestMembership(d))
}
func (a *API) QueryMembership(e []byte) (*balloon.MembershipProof, error) {
	return a.tm(a.B.Bal.QueryMembership(e))
}
func (a *API) QueryConsistency(s, e uint64) (*balloon.IncrementalProof, error) {
	p, err := a.B.Bal.QueryConsistency(s, e)
	if err == nil && a.TamperIncremental != nil {
		p = a.TamperIncremental(p)
	}
	return p, err
}
func (a *API) ClusterInfo() *consensus.ClusterInfo {
	return &consensus.ClusterInfo{LeaderId: "n0", Nodes: map[string]*consensus.NodeInfo{"n0": a.Info()}}
}
func (a *API) Info() *consensus.NodeInfo {
	return &consensus.NodeInfo{NodeId: "n0", HttpAddr: "127.0.0.1:0"}
}
func (a *API) IsLeader() bool { return true }
