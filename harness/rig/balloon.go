// Package rig holds the rigs that put real QED code under a generated
// history: the in-process balloon rig, tree-level rig, executor client,
// cluster rig, faulty store (DESIGN.md §4.3–4.5).
package rig

import (
	"bytes"
	"fmt"

	"github.com/bbva/qed/balloon"
	"github.com/bbva/qed/crypto/hashing"
	"github.com/bbva/qed/log"
	"github.com/bbva/qed/storage"
	"github.com/bbva/qed/storage/bplus"

	"verif/gen"
	"verif/pbt"
	"verif/refmodel"
)

func init() { Quiet() }

// Quiet turns QED's default logger off.
func Quiet() {
	log.SetDefault(log.New(&log.LoggerOptions{Level: log.Off}))
}

// Dg converts a model digest to QED's type (fresh copy: QED appends to
// digests in place in some paths).
func Dg(d refmodel.D) hashing.Digest {
	out := make([]byte, 32)
	copy(out, d[:])
	return out
}

// ToD converts back; short / long values are padded / truncated so that a
// comparison still fails loudly instead of panicking.
func ToD(h []byte) (d refmodel.D) { copy(d[:], h); return }

// B is a real Balloon over a store, with every mutation applied after every
// call, as the FSM does.
type B struct {
	Store storage.Store
	Bal   *balloon.Balloon
	Snaps []*balloon.Snapshot // every snapshot returned, by version
}

// NewBPlus opens a balloon over a fresh in-memory B+tree store.
func NewBPlus() (*B, error) { return NewOn(bplus.NewBPlusTreeStore()) }

// NewOn opens a balloon on an existing store.
func NewOn(st storage.Store) (*B, error) {
	bal, err := balloon.NewBalloon(st, hashing.NewSha256Hasher)
	if err != nil {
		return nil, err
	}
	pbt.Keep(bal)
	return &B{Store: st, Bal: bal}, nil
}

// Restart drops the balloon (and all its in-memory state) and builds a new
// one on the same store.
func (b *B) Restart() error {
	bal, err := balloon.NewBalloon(b.Store, hashing.NewSha256Hasher)
	if err != nil {
		return err
	}
	pbt.Keep(bal)
	b.Bal = bal
	return nil
}

// Apply performs one insertion call and persists its mutations.
func (b *B) Apply(bulk bool, ds []refmodel.D) ([]*balloon.Snapshot, error) {
	var snaps []*balloon.Snapshot
	var muts []*storage.Mutation
	var err error
	if bulk {
		in := make([]hashing.Digest, len(ds))
		for i := range ds {
			in[i] = Dg(ds[i])
		}
		snaps, muts, err = b.Bal.AddBulk(in)
	} else {
		if len(ds) != 1 {
			return nil, fmt.Errorf("rig: single add with %d digests", len(ds))
		}
		var s *balloon.Snapshot
		s, muts, err = b.Bal.Add(Dg(ds[0]))
		snaps = []*balloon.Snapshot{s}
	}
	if err != nil {
		return nil, err
	}
	if err := b.Store.Mutate(muts, nil); err != nil {
		return nil, err
	}
	b.Snaps = append(b.Snaps, snaps...)
	return snaps, nil
}

// CheckSnap compares a snapshot returned by the real log with the model's.
func CheckSnap(got *balloon.Snapshot, want refmodel.Snapshot, hyperToo bool) error {
	if got == nil {
		return fmt.Errorf("nil snapshot for version %d", want.Version)
	}
	if got.Version != want.Version {
		return fmt.Errorf("snapshot version %d, model says %d", got.Version, want.Version)
	}
	if !bytes.Equal(got.EventDigest, want.EventDigest[:]) {
		return fmt.Errorf("v%d: event digest %x, model %x", want.Version, got.EventDigest, want.EventDigest)
	}
	if !bytes.Equal(got.HistoryDigest, want.HistoryDigest[:]) {
		return fmt.Errorf("v%d: history digest %x differs from the reference tree's %x", want.Version, got.HistoryDigest, want.HistoryDigest)
	}
	if hyperToo && !bytes.Equal(got.HyperDigest, want.HyperDigest[:]) {
		return fmt.Errorf("v%d: hyper digest %x differs from the reference tree's %x", want.Version, got.HyperDigest, want.HyperDigest)
	}
	return nil
}

// LogHistory is the plain-data history most balloon-level properties draw:
// a digest sequence, its partition into calls, and restart points (indexes
// of calls before which a fresh balloon is built on the same store).
type LogHistory struct {
	Digests  []string   `json:"digests"`
	Calls    []gen.Call `json:"calls"`
	Restarts []int      `json:"restarts,omitempty"`
	Distinct bool       `json:"distinct"`
}

// Ds decodes the digests.
func (h LogHistory) Ds() []refmodel.D {
	out := make([]refmodel.D, len(h.Digests))
	for i, s := range h.Digests {
		out[i] = gen.UnHex(s)
	}
	return out
}

// Classes labels a history for the evidence histogram.
func (h LogHistory) Classes() []string {
	var cs []string
	ds := h.Ds()
	bulk := false
	for _, c := range h.Calls {
		if c.Bulk && c.N >= 2 {
			bulk = true
		}
	}
	if bulk {
		cs = append(cs, "bulk>=2")
	}
	if len(h.Restarts) > 0 {
		cs = append(cs, "restart")
	}
	n := len(ds)
	if n >= 2 && (n&(n-1) == 0 || (n+1)&n == 0 || (n-1)&(n-2) == 0) {
		cs = append(cs, "pow2-boundary")
	}
	maxp := 0
	seen := map[refmodel.D]bool{}
	dup := false
	for i := range ds {
		if seen[ds[i]] {
			dup = true
		}
		seen[ds[i]] = true
		if n <= 200 {
			for j := 0; j < i; j++ {
				if ds[i] != ds[j] {
					if p := gen.SharedPrefix(ds[i], ds[j]); p > maxp {
						maxp = p
					}
				}
			}
		}
	}
	if dup {
		cs = append(cs, "dup")
	}
	switch {
	case maxp >= 200:
		cs = append(cs, "prefix>=200", "prefix>=28", "prefix>=24")
	case maxp >= 28:
		cs = append(cs, "prefix>=28", "prefix>=24")
	case maxp >= 24:
		cs = append(cs, "prefix>=24")
	}
	return cs
}

// Build runs the history on a fresh bplus-backed balloon and on the model,
// checking every returned snapshot against the model when check is true.
func (h LogHistory) Build(check bool) (*B, *refmodel.Log, error) {
	b, err := NewBPlus()
	if err != nil {
		return nil, nil, err
	}
	m := refmodel.NewLog()
	ds := h.Ds()
	rs := map[int]bool{}
	for _, r := range h.Restarts {
		rs[r] = true
	}
	off := 0
	for ci, c := range h.Calls {
		if rs[ci] {
			if err := b.Restart(); err != nil {
				return nil, nil, fmt.Errorf("restart before call %d: %v", ci, err)
			}
		}
		if c.N <= 0 || off+c.N > len(ds) {
			return nil, nil, fmt.Errorf("malformed history: call %d", ci)
		}
		part := ds[off : off+c.N]
		off += c.N
		snaps, err := b.Apply(c.Bulk, part)
		if err != nil {
			return nil, nil, fmt.Errorf("call %d: %v", ci, err)
		}
		want := m.AddBulk(part)
		if len(snaps) != len(want) {
			return nil, nil, fmt.Errorf("call %d returned %d snapshots for %d events", ci, len(snaps), len(want))
		}
		if check {
			for i := range want {
				if err := CheckSnap(snaps[i], want[i], h.Distinct); err != nil {
					return nil, nil, fmt.Errorf("call %d (%v): %v", ci, c, err)
				}
			}
		}
	}
	return b, m, nil
}
