package rig

import (
	"pgregory.net/rapid"

	"verif/gen"
	"verif/refmodel"
)

// DrawLog draws a LogHistory of at most maxN events.
func DrawLog(t *rapid.T, maxN int, distinct bool, restarts bool) LogHistory {
	n := gen.LogSize(maxN).Draw(t, "n")
	ds := gen.Digests(t, n, distinct)
	h := LogHistory{Distinct: distinct}
	for _, d := range ds {
		h.Digests = append(h.Digests, gen.Hex(d))
	}
	h.Calls = gen.Partition(t, n)
	if restarts && len(h.Calls) > 1 {
		k := rapid.IntRange(0, 3).Draw(t, "nrestarts")
		seen := map[int]bool{}
		for i := 0; i < k; i++ {
			r := rapid.IntRange(1, len(h.Calls)-1).Draw(t, "restart")
			if !seen[r] {
				seen[r] = true
				h.Restarts = append(h.Restarts, r)
			}
		}
	}
	return h
}

// DrawBigLog draws a log of n distinct random digests in 2-5 big bulks (the
// reference model recomputes the hyper root per call, so large logs come in
// few calls).
func DrawBigLog(t *rapid.T, n int) LogHistory {
	h := LogHistory{Distinct: true}
	seed := rapid.SliceOfN(rapid.Byte(), 32, 32).Draw(t, "bigseed")
	for i := 0; i < n; i++ {
		// uniformly spread digests (one recovery tile per event, as with real events)
		d := refmodel.EventDigest(append(append([]byte{}, seed...), byte(i>>16), byte(i>>8), byte(i)))
		h.Digests = append(h.Digests, gen.Hex(d))
	}
	k := rapid.IntRange(2, 5).Draw(t, "bigcalls")
	left := n
	for i := 0; i < k; i++ {
		m := left / (k - i)
		if i < k-1 {
			m = rapid.IntRange(1, left-(k-i-1)).Draw(t, "bigbulk")
		} else {
			m = left
		}
		h.Calls = append(h.Calls, gen.Call{Bulk: true, N: m})
		left -= m
	}
	return h
}
