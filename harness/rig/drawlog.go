package rig

import (
	"pgregory.net/rapid"

	"verif/gen"
)

// DrawLog draws a LogHistory of at most maxN events.
func DrawLog(t *rapid.T, maxN int, distinct bool, restarts bool) LogHistory {
	n := gen.LogSize(maxN).Draw(t, "n")
	ds := gen.Digests(t, n, distinct)
	h := LogHistory{Distinct: distinct}
	for _, d := range ds {
		h.Digests = append(h.Digests, gen.Hex(d))
	}
	h.Calls = gen.Partition(t, n)
	if restarts && len(h.Calls) > 1 {
		k := rapid.IntRange(0, 3).Draw(t, "nrestarts")
		seen := map[int]bool{}
		for i := 0; i < k; i++ {
			r := rapid.IntRange(1, len(h.Calls)-1).Draw(t, "restart")
			if !seen[r] {
				seen[r] = true
				h.Restarts = append(h.Restarts, r)
			}
		}
	}
	return h
}
