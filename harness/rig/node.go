package rig

import (
	"bytes"
	"encoding/json"
	"fmt"
	"net"
	"os"
	"strconv"
	"sync/atomic"
	"time"

	"github.com/bbva/qed/balloon"
	"github.com/bbva/qed/crypto/hashing"
	"github.com/bbva/qed/protocol"

	"verif/refmodel"
	"verif/xp"
)

var portCtr int64

// FreeAddr returns a loopback address with a free port. Ports come from a
// range owned by this shard's worker slot (below the ephemeral range; the
// driver runs at most 16 shards at a time and hands each a slot), so that
// parallel shards of a unit never pick the same port between probing and
// binding; each candidate is probed by listening on it once.
func FreeAddr() string {
	shard, _ := strconv.Atoi(os.Getenv("VERIF_SHARD"))
	if s, err := strconv.Atoi(os.Getenv("VERIF_SLOT")); err == nil {
		shard = s
	}
	// 16 slots x 400 ports per driver; the driver picks one of three bases (by its pid), so that
	// two checks running at the same time rarely share a range
	const span = 400
	pb, err := strconv.Atoi(os.Getenv("VERIF_PORTBASE"))
	if err != nil || pb < 1024 {
		pb = 10000
	}
	base := pb + (shard%16)*span
	for i := 0; i < span; i++ {
		port := base + int((atomic.AddInt64(&portCtr, 1)+int64(os.Getpid()*7))%span)
		l, err := net.Listen("tcp", fmt.Sprintf("127.0.0.1:%d", port))
		if err != nil {
			continue
		}
		l.Close()
		return fmt.Sprintf("127.0.0.1:%d", port)
	}
	l, err := net.Listen("tcp", "127.0.0.1:0")
	if err != nil {
		panic(err)
	}
	defer l.Close()
	return l.Addr().String()
}

// Node is a RaftNode living in an executor child.
type Node struct {
	X    *Exec
	Name string
	Opts xp.NodeOpts
}

// OpenNode opens a node in child x; for a bootstrap node it waits until the
// node reports leadership (bounded).
func OpenNode(x *Exec, name string, o xp.NodeOpts) (*Node, error) {
	if o.Addr == "" {
		o.Addr = FreeAddr()
	}
	if o.ID == "" {
		o.ID = name
	}
	r, err := x.Call(&xp.Req{Op: "node-open", Name: name, Node: &o}, 60*time.Second)
	if err != nil {
		return nil, err
	}
	if r.Err != "" {
		return nil, fmt.Errorf("node-open: %s", r.Err)
	}
	return &Node{X: x, Name: name, Opts: o}, nil
}

// WaitLeader polls until the node is leader.
func (n *Node) WaitLeader(d time.Duration) error {
	deadline := time.Now().Add(d)
	for {
		st, err := n.State()
		if err != nil {
			return err
		}
		if st.IsLeader {
			return nil
		}
		if time.Now().After(deadline) {
			return fmt.Errorf("node %s not leader after %v (raft state %s)", n.Name, d, st.RaftState)
		}
		time.Sleep(20 * time.Millisecond)
	}
}

func (n *Node) call(req *xp.Req, d time.Duration) (*xp.Resp, error) {
	req.Name = n.Name
	return n.X.Call(req, d)
}

// AddResult is the outcome of an insertion request.
type AddResult struct {
	Snaps   []xp.Snap
	Err     string
	ErrKind string
}

// Add inserts events: one Add call when single, else one AddBulk.
func (n *Node) Add(events [][]byte, single bool) (*AddResult, error) {
	op := "node-add"
	if single {
		op = "node-add-one"
	}
	r, err := n.call(&xp.Req{Op: op, Events: events}, 60*time.Second)
	if err != nil {
		return nil, err
	}
	return &AddResult{r.Snaps, r.Err, r.ErrKind}, nil
}

func (n *Node) State() (*xp.State, error) {
	r, err := n.call(&xp.Req{Op: "node-state"}, 30*time.Second)
	if err != nil {
		return nil, err
	}
	if r.Err != "" {
		return nil, fmt.Errorf("%s", r.Err)
	}
	return r.State, nil
}

func (n *Node) Query(qs []xp.Query) ([]xp.Answer, error) {
	// bound on an answer: 60 s. Properties that use this rig are not about
	// latency; under 16 loaded shards a follower that is rebuilding its
	// 1.15 GB cache after a state transfer has been seen to take > 10 s.
	r, err := n.call(&xp.Req{Op: "node-query", Queries: qs, N: 60000}, 150*time.Second)
	if err != nil {
		return nil, err
	}
	if r.Err != "" {
		return nil, fmt.Errorf("%s", r.Err)
	}
	return r.Answers, nil
}

func (n *Node) Dump() (*xp.Resp, error) {
	r, err := n.call(&xp.Req{Op: "node-dump"}, 60*time.Second)
	if err != nil {
		return nil, err
	}
	if r.Err != "" {
		return nil, fmt.Errorf("%s", r.Err)
	}
	return r, nil
}

func (n *Node) Simple(op string, num uint64, path string) (*xp.Resp, error) {
	return n.call(&xp.Req{Op: op, N: num, Path: path}, 120*time.Second)
}

// Close closes the node (RaftNode.Close(wait)); the returned string is the
// error Close returned, the error a death of the child.
func (n *Node) Close(wait bool) (string, error) {
	r, err := n.call(&xp.Req{Op: "node-close", Wait: wait}, 60*time.Second)
	if err != nil {
		return "", err
	}
	return r.Err, nil
}

// CloseBounded is Close with a bound (seconds) on how long the child waits
// for RaftNode.Close to return; ErrKind "hang" reports that it did not.
func (n *Node) CloseBounded(wait bool, seconds int) (*xp.Resp, error) {
	return n.call(&xp.Req{Op: "node-close", Wait: wait, N: uint64(seconds)}, time.Duration(seconds+30)*time.Second)
}

// WaitVersion polls until the balloon's next version is want (bounded).
func (n *Node) WaitVersion(want uint64, d time.Duration) (*xp.State, error) {
	deadline := time.Now().Add(d)
	for {
		st, err := n.State()
		if err != nil {
			return nil, err
		}
		// the balloon's counter advances before the write reaches the store
		// (the apply window, C10); the FSM state only after it: wait for both
		if st.BalloonVersion == want && (want == 0 || st.StateVersion == want-1) {
			return st, nil
		}
		if st.BalloonVersion > want {
			return st, fmt.Errorf("balloon version is %d, beyond the expected %d", st.BalloonVersion, want)
		}
		if time.Now().After(deadline) {
			return st, fmt.Errorf("balloon version is %d, expected %d (waited %v)", st.BalloonVersion, want, d)
		}
		time.Sleep(15 * time.Millisecond)
	}
}

// ------------------------------------------------------------- oracles

// CheckAck compares an acknowledged insertion with the model (which must
// already contain it): dense versions in request order, event digests,
// both tree digests equal to the reference.
func CheckAck(got []xp.Snap, want []refmodel.Snapshot) error {
	if len(got) != len(want) {
		return fmt.Errorf("%d snapshots returned for %d events", len(got), len(want))
	}
	for i := range want {
		if got[i].Version != want[i].Version {
			return fmt.Errorf("event %d of the request got version %d, expected %d (dense, in order)", i, got[i].Version, want[i].Version)
		}
		if !bytes.Equal(got[i].Event, want[i].EventDigest[:]) {
			return fmt.Errorf("snapshot of version %d carries event digest %x, the event's digest is %x", want[i].Version, got[i].Event, want[i].EventDigest)
		}
		if !bytes.Equal(got[i].History, want[i].HistoryDigest[:]) {
			return fmt.Errorf("snapshot of version %d: history digest %x, reference %x", want[i].Version, got[i].History, want[i].HistoryDigest)
		}
		if !bytes.Equal(got[i].Hyper, want[i].HyperDigest[:]) {
			return fmt.Errorf("snapshot of version %d: hyper digest %x, reference %x", want[i].Version, got[i].Hyper, want[i].HyperDigest)
		}
	}
	return nil
}

// DecodeMember decodes a membership answer's wire form.
func DecodeMember(a xp.Answer) (*protocol.MembershipResult, *balloon.MembershipProof, error) {
	var mr *protocol.MembershipResult
	if err := json.Unmarshal(a.Result, &mr); err != nil || mr == nil {
		return nil, nil, fmt.Errorf("undecodable membership answer: %v", err)
	}
	return mr, protocol.ToBalloonProof(mr, hashing.NewSha256Hasher), nil
}

// VerifyMember judges one membership answer for event digest e at query
// version q against the model's (authentic) digests. cur is the model's
// current version at the time of the query.
func VerifyMember(a xp.Answer, m *refmodel.Log, e refmodel.D, q, cur uint64) error {
	tag := fmt.Sprintf("membership(e=%x…, q=%d) at current=%d", e[:4], q, cur)
	if a.Panic != "" {
		return fmt.Errorf("%s: query panicked: %s", tag, a.Panic)
	}
	if a.Timeout {
		return fmt.Errorf("%s: no answer within the bound", tag)
	}
	if a.Err != "" {
		return fmt.Errorf("%s: error %s", tag, a.Err)
	}
	mr, p, err := DecodeMember(a)
	if err != nil {
		return fmt.Errorf("%s: %v", tag, err)
	}
	if !mr.Exists {
		return fmt.Errorf("%s: answers Exists=false for an accepted event", tag)
	}
	if mr.CurrentVersion != cur {
		return fmt.Errorf("%s: CurrentVersion=%d, accepted-1=%d", tag, mr.CurrentVersion, cur)
	}
	if mr.QueryVersion != q {
		return fmt.Errorf("%s: QueryVersion=%d", tag, mr.QueryVersion)
	}
	ok := false
	for _, v := range m.Versions[e] {
		if v == mr.ActualVersion {
			ok = true
		}
	}
	if !ok || mr.ActualVersion > q {
		return fmt.Errorf("%s: ActualVersion=%d (insertions of this event: %v)", tag, mr.ActualVersion, m.Versions[e])
	}
	snap := &balloon.Snapshot{HistoryDigest: m.Snapshots[q].HistoryDigest[:], HyperDigest: m.Snapshots[cur].HyperDigest[:]}
	if !p.DigestVerify(Dg(e), snap) {
		return fmt.Errorf("%s: proof does not verify against the snapshots issued for versions %d (history) and %d (hyper)", tag, q, cur)
	}
	return nil
}

// VerifyIncr judges one consistency answer.
func VerifyIncr(a xp.Answer, m *refmodel.Log, i, j uint64) error {
	tag := fmt.Sprintf("consistency(%d,%d)", i, j)
	if a.Panic != "" {
		return fmt.Errorf("%s: query panicked: %s", tag, a.Panic)
	}
	if a.Timeout {
		return fmt.Errorf("%s: no answer within the bound", tag)
	}
	if a.Err != "" {
		return fmt.Errorf("%s: error %s", tag, a.Err)
	}
	var ir *protocol.IncrementalResponse
	if err := json.Unmarshal(a.Result, &ir); err != nil || ir == nil {
		return fmt.Errorf("%s: undecodable answer", tag)
	}
	p := protocol.ToIncrementalProof(ir, hashing.NewSha256Hasher)
	if ir.Start != i || ir.End != j {
		return fmt.Errorf("%s: answer names (%d,%d)", tag, ir.Start, ir.End)
	}
	if !p.Verify(&balloon.Snapshot{HistoryDigest: m.Snapshots[i].HistoryDigest[:]}, &balloon.Snapshot{HistoryDigest: m.Snapshots[j].HistoryDigest[:]}) {
		return fmt.Errorf("%s: proof does not verify against the snapshots issued for versions %d and %d", tag, i, j)
	}
	return nil
}

// SampleQueries builds a deterministic sample of membership and consistency
// queries over the model: every event when n<=limit, else a stride; for each
// the versions {own, middle, current}; pairs around powers of two.
func SampleQueries(m *refmodel.Log, limit int) (qs []xp.Query, judge func([]xp.Answer) error) {
	n := m.Len()
	if n == 0 {
		return nil, func([]xp.Answer) error { return nil }
	}
	cur := uint64(n - 1)
	type mk struct {
		e    refmodel.D
		q    uint64
		i, j uint64
		inc  bool
		lat  bool
	}
	var meta []mk
	stride := 1
	if n > limit {
		stride = n / limit
	}
	for v := 0; v < n; v += stride {
		e := m.Events[v]
		rep := m.Hyper[e]
		for _, q := range uniq([]uint64{rep, (rep + cur) / 2, cur}) {
			qs = append(qs, xp.Query{Kind: "member", Digest: Dg(e), Version: q})
			meta = append(meta, mk{e: e, q: q})
		}
		if v%3 == 0 {
			qs = append(qs, xp.Query{Kind: "member-latest", Digest: Dg(e)})
			meta = append(meta, mk{e: e, q: cur, lat: true})
		}
	}
	pts := uniq([]uint64{0, 1, cur / 2, cur - 1, cur})
	for _, i := range pts {
		for _, j := range pts {
			if i <= j && j <= cur {
				qs = append(qs, xp.Query{Kind: "incr", Start: i, End: j})
				meta = append(meta, mk{i: i, j: j, inc: true})
			}
		}
	}
	return qs, func(as []xp.Answer) error {
		if len(as) != len(meta) {
			return fmt.Errorf("%d answers for %d queries", len(as), len(meta))
		}
		for k, x := range meta {
			var err error
			if x.inc {
				err = VerifyIncr(as[k], m, x.i, x.j)
			} else {
				err = VerifyMember(as[k], m, x.e, x.q, cur)
			}
			if err != nil {
				return err
			}
		}
		return nil
	}
}

func uniq(in []uint64) []uint64 {
	var out []uint64
	seen := map[uint64]bool{}
	for _, v := range in {
		if v < 1<<63 && !seen[v] {
			seen[v] = true
			out = append(out, v)
		}
	}
	return out
}

// CheckNode queries a sample on node n and judges it against the model.
func CheckNode(n *Node, m *refmodel.Log, limit int) (int, error) {
	qs, judge := SampleQueries(m, limit)
	if len(qs) == 0 {
		return 0, nil
	}
	as, err := n.Query(qs)
	if err != nil {
		return 0, err
	}
	return len(qs), judge(as)
}

// SnapOf builds the snapshot a client would use for an answer naming
// (queryV, currentV), from the model's digests.
func SnapOf(m *refmodel.Log, queryV, currentV uint64) *balloon.Snapshot {
	return &balloon.Snapshot{HistoryDigest: m.Snapshots[queryV].HistoryDigest[:], HyperDigest: m.Snapshots[currentV].HyperDigest[:]}
}
