package rig

import (
	"fmt"

	"pgregory.net/rapid"
)

// DrawAdds draws a workload of m insertion calls (single / bulk) with
// distinct textual events; tag keeps events of different draws apart.
func DrawAdds(t *rapid.T, m int, maxBulk int, tag string) []Step {
	var steps []Step
	seq := 0
	for i := 0; i < m; i++ {
		k := 1
		single := rapid.IntRange(0, 2).Draw(t, "single") == 0
		if !single {
			k = rapid.IntRange(1, maxBulk).Draw(t, "bulk")
		}
		var es []string
		for j := 0; j < k; j++ {
			es = append(es, fmt.Sprintf("%s-%d-%s", tag, seq, rapid.StringMatching("[a-z]{0,4}").Draw(t, "ev")))
			seq++
		}
		steps = append(steps, Step{Op: "add", Events: es, Single: single})
	}
	return steps
}
