package rig

import (
	"fmt"
	"sort"
	"time"

	"verif/refmodel"
	"verif/xp"
)

// Cluster is a set of RaftNodes living in ONE executor child (as upstream's
// cluster tests do), driven through the executor protocol.
type Cluster struct {
	X       *Exec
	Dir     string
	Addr    map[string]string // raft address per node name (stable across restarts)
	Live    map[string]*Node
	Opts    xp.NodeOpts // template
	Acked   *refmodel.Log
	Snaps   []xp.Snap // snapshots the leaders returned, by version
	lastLdr string
	next    int
}

// NewCluster boots n nodes: n0 bootstraps, the others join it.
func NewCluster(x *Exec, n int, tmpl xp.NodeOpts) (*Cluster, error) {
	c := &Cluster{X: x, Dir: WorkDir("cluster"), Addr: map[string]string{}, Live: map[string]*Node{}, Opts: tmpl, Acked: refmodel.NewLog()}
	for i := 0; i < n; i++ {
		if _, err := c.StartNew(); err != nil {
			return nil, err
		}
	}
	return c, nil
}

func (c *Cluster) opts(name string, bootstrap bool) xp.NodeOpts {
	o := c.Opts
	o.Dir = fmt.Sprintf("%s/%s", c.Dir, name)
	o.ID = name
	o.Addr = c.Addr[name]
	o.Bootstrap = bootstrap
	if !bootstrap {
		var names []string
		for nm := range c.Live {
			names = append(names, nm)
		}
		sort.Strings(names)
		// the current leader first: JoinCluster is only served by the leader
		if l := c.leaderNow(); l != "" {
			o.Seeds = append(o.Seeds, c.Addr[l])
		}
		for _, nm := range names {
			o.Seeds = append(o.Seeds, c.Addr[nm])
		}
	}
	return o
}

// StartNew starts a brand-new node (bootstrap when it is the first).
func (c *Cluster) StartNew() (string, error) {
	name := fmt.Sprintf("n%d", c.next)
	c.next++
	c.Addr[name] = FreeAddr()
	first := len(c.Live) == 0
	n, err := OpenNode(c.X, name, c.opts(name, first))
	if err != nil {
		return name, err
	}
	c.Live[name] = n
	if first {
		if err := n.WaitLeader(20 * time.Second); err != nil {
			return name, err
		}
	}
	return name, nil
}

// Stop closes a node (RaftNode.Close(true)) inside the child.
func (c *Cluster) Stop(name string) error {
	n := c.Live[name]
	if n == nil {
		return fmt.Errorf("no live node %s", name)
	}
	cerr, err := n.Close(true)
	if err != nil {
		return err
	}
	delete(c.Live, name)
	if cerr != "" {
		return fmt.Errorf("Close(%s): %s", name, cerr)
	}
	return nil
}

// Restart reopens a stopped node on its directories (existing raft state:
// no join needed).
func (c *Cluster) Restart(name string) error {
	o := c.opts(name, false)
	n, err := OpenNode(c.X, name, o)
	if err != nil {
		return err
	}
	c.Live[name] = n
	return nil
}

func (c *Cluster) leaderNow() string {
	for nm, n := range c.Live {
		if st, err := n.State(); err == nil && st.IsLeader {
			return nm
		}
	}
	return ""
}

// Leader waits for a live node that reports leadership. After a transfer
// the old leader keeps saying IsLeader for a few ms, so avoid names a caller
// knows to be stale.
func (c *Cluster) Leader(avoid string, d time.Duration) (*Node, error) {
	deadline := time.Now().Add(d)
	for {
		var names []string
		for nm := range c.Live {
			names = append(names, nm)
		}
		sort.Strings(names)
		for _, nm := range names {
			if nm == avoid {
				continue
			}
			st, err := c.Live[nm].State()
			if err != nil {
				return nil, err
			}
			if st.IsLeader {
				c.lastLdr = nm
				return c.Live[nm], nil
			}
		}
		if time.Now().After(deadline) {
			return nil, fmt.Errorf("no leader among %v after %v", names, d)
		}
		time.Sleep(25 * time.Millisecond)
	}
}

// Indeterminate is returned by Add when the outcome of an insertion is not
// known (it may or may not have been committed).
type Indeterminate struct{ Why string }

func (i *Indeterminate) Error() string { return "indeterminate insertion: " + i.Why }

// Add inserts on whoever is leader, retrying definite refusals
// (not-leader, transfer in progress).
func (c *Cluster) Add(events []string, single bool) ([]xp.Snap, error) {
	for attempt := 0; attempt < 40; attempt++ {
		l, err := c.Leader("", 20*time.Second)
		if err != nil {
			return nil, err
		}
		res, err := l.Add(evs(events), single && len(events) == 1)
		if err != nil {
			return nil, err
		}
		switch res.ErrKind {
		case "":
			c.Acked.AddBulk(digests(events))
			c.Snaps = append(c.Snaps, res.Snaps...)
			return res.Snaps, nil
		case "not-leader", "transfer-in-progress":
			time.Sleep(50 * time.Millisecond)
			continue
		default:
			return nil, &Indeterminate{res.Err}
		}
	}
	return nil, &Indeterminate{"no leader accepted the insertion in 40 attempts"}
}

// Transfer makes the current leader hand over leadership and waits for
// another node to lead.
func (c *Cluster) Transfer() (from, to string, err error) {
	l, err := c.Leader("", 20*time.Second)
	if err != nil {
		return "", "", err
	}
	r, err := l.Simple("node-transfer", 0, "")
	if err != nil {
		return l.Name, "", err
	}
	if r.Err != "" {
		return l.Name, "", fmt.Errorf("transfer: %s", r.Err)
	}
	n, err := c.Leader(l.Name, 20*time.Second)
	if err != nil {
		return l.Name, "", err
	}
	return l.Name, n.Name, nil
}

// Quiesce waits until every live node has applied what the leader applied.
func (c *Cluster) Quiesce(d time.Duration) (map[string]*xp.State, error) {
	if d < 2*time.Minute {
		// two minutes at least: a replica that is merely slow on a busy machine has been seen to
		// need more than one (three orders above the normal tens of milliseconds either way)
		d = 2 * time.Minute
	}
	deadline := time.Now().Add(Stretch(d))
	want := uint64(c.Acked.Len())
	for {
		states := map[string]*xp.State{}
		ok := true
		for nm, n := range c.Live {
			st, err := n.State()
			if err != nil {
				return nil, err
			}
			states[nm] = st
			if st.BalloonVersion != want || (want > 0 && st.StateVersion != want-1) {
				ok = false
			}
		}
		if ok {
			// same applied raft index everywhere
			var idx uint64
			first := true
			for _, st := range states {
				if first {
					idx, first = st.Index, false
				} else if st.Index != idx {
					ok = false
				}
			}
		}
		if ok {
			return states, nil
		}
		if time.Now().After(deadline) {
			return states, fmt.Errorf("replicas did not converge within %v: %s", d, fmtStates(states, want))
		}
		time.Sleep(30 * time.Millisecond)
	}
}

func fmtStates(states map[string]*xp.State, want uint64) string {
	var names []string
	for nm := range states {
		names = append(names, nm)
	}
	sort.Strings(names)
	s := fmt.Sprintf("accepted=%d;", want)
	for _, nm := range names {
		st := states[nm]
		s += fmt.Sprintf(" %s{version=%d applied-index=%d raft=%s log=[%d,%d]}", nm, st.BalloonVersion, st.Index, st.RaftState, st.First, st.Last)
	}
	return s
}

// AckedModel is a model whose snapshots are the ones the leaders actually
// returned (so that proofs are judged against what clients hold).
func (c *Cluster) AckedModel() *refmodel.Log {
	m := refmodel.NewLog()
	m.Events = c.Acked.Events
	m.Hyper = c.Acked.Hyper
	m.Versions = c.Acked.Versions
	for _, s := range c.Snaps {
		m.Snapshots = append(m.Snapshots, refmodel.Snapshot{EventDigest: ToD(s.Event), HistoryDigest: ToD(s.History), HyperDigest: ToD(s.Hyper), Version: s.Version})
	}
	return m
}

// CheckReplicas is C06's oracle at a quiescent point.
func (c *Cluster) CheckReplicas(limit int) (queries int, err error) {
	m := c.AckedModel()
	var names []string
	for nm := range c.Live {
		names = append(names, nm)
	}
	sort.Strings(names)
	var ref *xp.Resp
	var refName string
	for _, nm := range names {
		d, err := c.Live[nm].Dump()
		if err != nil {
			return queries, err
		}
		if ref == nil {
			ref, refName = d, nm
		} else {
			for _, tbl := range []string{"hyper", "hypercache", "history", "fsm"} {
				if d.DumpHash[tbl] != ref.DumpHash[tbl] {
					return queries, fmt.Errorf("stored %s table of replica %s (%d entries) differs from replica %s (%d entries)", tbl, nm, d.DumpCount[tbl], refName, ref.DumpCount[tbl])
				}
			}
		}
		if m.Len() > 0 {
			k, err := CheckNode(c.Live[nm], m, limit)
			queries += k
			if err != nil {
				return queries, fmt.Errorf("replica %s: %v", nm, err)
			}
		}
	}
	return queries, nil
}

// CrashAll SIGKILLs the process holding every replica (the whole cluster
// loses power at once, page cache intact) and reopens all nodes that were
// live on their directories in a new child.
func (c *Cluster) CrashAll() error {
	var names []string
	for nm := range c.Live {
		names = append(names, nm)
	}
	sort.Strings(names)
	c.X.Kill()
	x, err := StartExec("nodeexec")
	if err != nil {
		return err
	}
	c.X = x
	c.Live = map[string]*Node{}
	for _, nm := range names {
		o := c.Opts
		o.Dir = fmt.Sprintf("%s/%s", c.Dir, nm)
		o.ID = nm
		o.Addr = c.Addr[nm]
		o.Bootstrap = false
		n, err := OpenNode(x, nm, o)
		if err != nil {
			return fmt.Errorf("reopening %s after the crash: %v", nm, err)
		}
		c.Live[nm] = n
	}
	_, err = c.Leader("", 30*time.Second)
	return err
}
