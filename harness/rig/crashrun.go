package rig

import (
	"fmt"
	"time"

	"verif/refmodel"
	"verif/xp"
)

// CrashRun executes a workload (add / snapshot steps) on a single-node
// RaftNode and SIGKILLs the child just before or just after its k-th store
// write (counted over the whole first life, whatever apply it belongs to),
// restarts the node on the same directories and finishes the workload plus
// tail. k <= 0 means a crash-free run; it returns the number of store writes
// the workload performed, which is how callers learn how many crash points a
// workload has.
//
// Oracle (C07): after restart the node reaches exactly acknowledged +
// in-flight events (the in-flight entry is in the raft log: it must be applied
// exactly once), every later acknowledged snapshot equals the reference
// model's, sampled proofs of all events verify against the issued snapshots.
func CrashRun(work, tail []Step, k int, pos string, limit int) (writes int, crashed bool, queries int, err error) {
	dir := WorkDir("crash")
	m := refmodel.NewLog()
	plan := xp.Plan{}
	if k > 0 {
		if pos == "before" {
			plan.KillBefore = k
		} else {
			plan.KillAfter = k
		}
	}
	var x *Exec
	defer func() {
		if x != nil {
			x.Kill()
		}
	}()
	open := func(p xp.Plan) (*Node, error) {
		var e error
		x, e = StartExec("nodeexec")
		if e != nil {
			return nil, unsettled("executor: %v", e)
		}
		n, e := OpenNode(x, "n", xp.NodeOpts{Dir: dir, Bootstrap: true, TimeoutMs: 150, Plan: p, SnapshotThreshold: 1 << 30, TrailingLogs: 0})
		if e != nil {
			return nil, e
		}
		if e := n.WaitLeader(20 * time.Second); e != nil {
			return nil, e
		}
		return n, nil
	}
	n, e := open(plan)
	if e != nil {
		return 0, false, 0, unsettled("open: %v", e)
	}
	steps := append(append([]Step{}, work...), tail...)
	for si := 0; si < len(steps); si++ {
		s := steps[si]
		switch s.Op {
		case "snapshot":
			if _, e := n.Simple("node-force-snapshot", 0, ""); e != nil {
				if d, ok := e.(*Death); ok && d.Signal == "killed" && !crashed && k > 0 {
					return 0, false, queries, unsettled("crash point hit during a snapshot request")
				}
				return 0, crashed, queries, unsettled("snapshot: %v", e)
			}
		case "add":
			res, e := n.Add(evs(s.Events), s.Single && len(s.Events) == 1)
			if e != nil {
				d, _ := e.(*Death)
				if d == nil || d.Signal != "killed" || d.Timeout || crashed || k <= 0 {
					return 0, crashed, queries, unsettled("node died during step %d: %v", si, e)
				}
				// the planned crash point: this insertion was in flight
				crashed = true
				x = nil
				where := fmt.Sprintf("crash %s store write %d (during the insertion of step %d, bulk of %d)", pos, k, si, len(s.Events))
				n, e = open(xp.Plan{})
				if e != nil {
					if _, u := e.(interface{ Error() string }); u {
					}
					return 0, true, queries, fmt.Errorf("%s: the node cannot be restarted on its data: %v", where, e)
				}
				want := uint64(m.Len() + len(s.Events))
				st, e := n.WaitVersion(want, 20*time.Second)
				if e != nil {
					have := uint64(0)
					if st != nil {
						have = st.BalloonVersion
					}
					if _, dead := e.(*Death); dead {
						return 0, true, queries, fmt.Errorf("%s: the node died while replaying its log after the restart: %v", where, e)
					}
					return 0, true, queries, fmt.Errorf("%s: after restart the node serves %d events; %d were acknowledged and the in-flight entry of %d is in the committed log, so exactly %d are expected (each entry applied exactly once)", where, have, m.Len(), len(s.Events), want)
				}
				m.AddBulk(digests(s.Events))
				q, e := CheckNode(n, m, limit)
				queries += q
				if e != nil {
					return 0, true, queries, fmt.Errorf("%s, after restart: %v", where, e)
				}
				continue
			}
			if res.Err != "" {
				return 0, crashed, queries, unsettled("add refused: %s", res.Err)
			}
			want := m.AddBulk(digests(s.Events))
			if e := CheckAck(res.Snaps, want); e != nil {
				if crashed {
					return 0, true, queries, fmt.Errorf("insertion of step %d after the crash and restart: %v", si, e)
				}
				return 0, false, queries, unsettled("before any crash: %v", e)
			}
		}
	}
	q, e := CheckNode(n, m, limit)
	queries += q
	if e != nil {
		if crashed {
			return 0, true, queries, fmt.Errorf("at the end, after the crash and restart: %v", e)
		}
		return 0, false, queries, unsettled("crash-free run: %v", e)
	}
	st, e := n.State()
	if e != nil {
		return 0, crashed, queries, unsettled("%v", e)
	}
	writes = st.Mutates
	n.Close(true)
	x.Exit()
	x = nil
	return writes, crashed, queries, nil
}
