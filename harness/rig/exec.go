package rig

import (
	"bufio"
	"encoding/json"
	"fmt"
	"io"
	"os"
	"os/exec"
	"path/filepath"
	"runtime"
	"strings"
	"sync"
	"syscall"
	"time"

	"verif/pbt"
	"verif/xp"
)

// Death describes how an executor child ended.
type Death struct {
	ExitCode int
	Signal   string
	Stderr   string
	Timeout  bool // the parent gave up waiting and killed it
}

func (d *Death) Error() string {
	s := fmt.Sprintf("executor child died: exit=%d", d.ExitCode)
	if d.Signal != "" {
		s += " signal=" + d.Signal
	}
	if d.Timeout {
		s += " (killed by the harness after a timeout)"
	}
	if d.Stderr != "" {
		s += " stderr: " + d.Stderr
	}
	return s
}

// Exec is a running executor child.
type Exec struct {
	cmd    *exec.Cmd
	in     io.WriteCloser
	out    *bufio.Reader
	errMu  sync.Mutex
	errBuf []string
	errEOF chan struct{}
	nextID int
	dead   *Death
}

// WorkDir returns a fresh scratch directory (removed before the next case).
func WorkDir(prefix string) string { return pbt.WorkDir(prefix) }

func execPath(name string) string {
	if b := os.Getenv("VERIF_BIN"); b != "" {
		return filepath.Join(b, name)
	}
	return filepath.Join("/verif/build/bin", name)
}

// StartExec launches an executor child (binary "nodeexec" or "nodeexec.race").
func StartExec(binary string) (*Exec, error) {
	cmd := exec.Command(execPath(binary))
	// Memory regime of the child (see pbt/mem.go): every RaftNode allocates
	// a 1.15 GB batch cache that is free while it comes untouched from the
	// OS and costs 1.15 GB resident (page faults at ~7 µs each) once the
	// collector recycles a freed one. A child lives for one case, so its
	// collector is simply turned off, with a far-away memory limit as a net.
	cmd.Env = append(os.Environ(), "GORACE=halt_on_error=0 log_path=stderr", "GOGC=off", "GOMEMLIMIT=24GiB")
	cmd.SysProcAttr = &syscall.SysProcAttr{Pdeathsig: syscall.SIGKILL}
	in, err := cmd.StdinPipe()
	if err != nil {
		return nil, err
	}
	out, err := cmd.StdoutPipe()
	if err != nil {
		return nil, err
	}
	se, err := cmd.StderrPipe()
	if err != nil {
		return nil, err
	}
	if err := cmd.Start(); err != nil {
		return nil, err
	}
	x := &Exec{cmd: cmd, in: in, out: bufio.NewReaderSize(out, 1<<20), errEOF: make(chan struct{})}
	go func() {
		defer close(x.errEOF)
		sc := bufio.NewScanner(se)
		sc.Buffer(make([]byte, 1<<20), 1<<20)
		var tee *os.File
		if d := os.Getenv("VERIF_CHILD_STDERR"); d != "" {
			tee, _ = os.Create(filepath.Join(d, fmt.Sprintf("child-%d-%d.stderr", os.Getpid(), cmd.Process.Pid)))
			defer tee.Close()
		}
		for sc.Scan() {
			if tee != nil {
				tee.WriteString(sc.Text() + "\n")
			}
			x.errMu.Lock()
			// keep the head (where a panic / fatal error announces itself)
			// and a sliding tail
			if len(x.errBuf) >= 700 {
				x.errBuf = append(x.errBuf[:200], x.errBuf[len(x.errBuf)-400:]...)
			}
			x.errBuf = append(x.errBuf, sc.Text())
			x.errMu.Unlock()
		}
	}()
	return x, nil
}

// Stderr returns everything the child wrote to stderr so far (bounded).
func (x *Exec) Stderr() string {
	x.errMu.Lock()
	defer x.errMu.Unlock()
	return strings.Join(x.errBuf, "\n")
}

func (x *Exec) reap(timeout bool) *Death {
	if x.dead != nil {
		return x.dead
	}
	done := make(chan error, 1)
	go func() { done <- x.cmd.Wait() }()
	var err error
	select {
	case err = <-done:
	case <-time.After(5 * time.Second):
		x.cmd.Process.Kill()
		err = <-done
		timeout = true
	}
	select {
	case <-x.errEOF:
	case <-time.After(time.Second):
	}
	d := &Death{Timeout: timeout}
	if ee, ok := err.(*exec.ExitError); ok {
		d.ExitCode = ee.ExitCode()
		if ws, ok := ee.Sys().(syscall.WaitStatus); ok && ws.Signaled() {
			d.Signal = ws.Signal().String()
		}
	}
	// keep the informative tail: panic message / assertion text
	x.errMu.Lock()
	lines := x.errBuf
	x.errMu.Unlock()
	var keep []string
	for _, l := range lines {
		if strings.Contains(l, "panic") || strings.Contains(l, "Assertion") || strings.Contains(l, "fatal error") || strings.Contains(l, "DATA RACE") || strings.Contains(l, "SIG") || strings.Contains(l, "runtime:") || strings.Contains(l, "nodeexec:") || strings.HasPrefix(l, "goroutine ") && len(keep) < 3 {
			keep = append(keep, l)
		}
	}
	if len(keep) == 0 && len(lines) > 0 {
		keep = lines
		if len(keep) > 6 {
			keep = keep[:6]
		}
	}
	if len(keep) > 8 {
		keep = keep[:8]
	}
	d.Stderr = strings.Join(keep, " | ")
	x.dead = d
	return d
}

// Stretch lengthens a wall-clock bound in proportion to how oversubscribed the
// machine is (1-minute load / CPUs, between 1 and 3): bounds are meant to be
// two orders above normal behaviour, and "normal" slows down with the load.
func Stretch(d time.Duration) time.Duration {
	b, err := os.ReadFile("/proc/loadavg")
	if err != nil {
		return d
	}
	var l float64
	fmt.Sscanf(string(b), "%f", &l)
	f := l / float64(runtime.NumCPU())
	if f < 1 {
		f = 1
	}
	if f > 3 {
		f = 3
	}
	return time.Duration(float64(d) * f)
}

// Call sends one request and waits for its answer. A child that dies or does
// not answer in time yields a *Death error.
func (x *Exec) Call(req *xp.Req, timeout time.Duration) (*xp.Resp, error) {
	if x.dead != nil {
		return nil, x.dead
	}
	x.nextID++
	req.ID = x.nextID
	b, err := json.Marshal(req)
	if err != nil {
		return nil, err
	}
	if _, err := x.in.Write(append(b, '\n')); err != nil {
		return nil, x.reap(false)
	}
	type res struct {
		line []byte
		err  error
	}
	ch := make(chan res, 1)
	go func() {
		l, err := x.out.ReadBytes('\n')
		ch <- res{l, err}
	}()
	select {
	case r := <-ch:
		if r.err != nil {
			return nil, x.reap(false)
		}
		var resp xp.Resp
		if err := json.Unmarshal(r.line, &resp); err != nil {
			return nil, fmt.Errorf("executor protocol error: %v (%q)", err, string(r.line[:min(len(r.line), 200)]))
		}
		return &resp, nil
	case <-time.After(Stretch(timeout)):
		x.cmd.Process.Kill()
		<-ch
		return nil, x.reap(true)
	}
}

// Kill SIGKILLs the child (a crash at an arbitrary instant).
func (x *Exec) Kill() *Death {
	if x.dead != nil {
		return x.dead
	}
	x.cmd.Process.Kill()
	return x.reap(false)
}

// Exit asks the child to exit and reports how it ended: ExitCode 0 and no
// signal means a clean end.
func (x *Exec) Exit() *Death {
	if x.dead != nil {
		return x.dead
	}
	x.nextID++
	b, _ := json.Marshal(&xp.Req{ID: x.nextID, Op: "exit"})
	x.in.Write(append(b, '\n'))
	go x.out.ReadBytes('\n')
	return x.reap(false)
}

func min(a, b int) int {
	if a < b {
		return a
	}
	return b
}
