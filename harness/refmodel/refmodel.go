// Package refmodel is an independent reference implementation of the two QED
// Merkle trees, written from the published construction (DESIGN.md §4.1). It
// shares no code with github.com/bbva/qed: hashing is crypto/sha256 called
// directly and positions are encoded by hand.
package refmodel

import (
	"bytes"
	"crypto/sha256"
	"encoding/binary"
	"math/bits"
	"sort"
)

// D is a 32-byte digest.
type D = [32]byte

func sum(parts ...[]byte) D {
	h := sha256.New()
	for _, p := range parts {
		h.Write(p)
	}
	var d D
	copy(d[:], h.Sum(nil))
	return d
}

// EventDigest is the digest under which an event is stored.
func EventDigest(event []byte) D { return sha256.Sum256(event) }

// ---------------------------------------------------------------- history

func histPos(i uint64, h uint16) []byte {
	var b [10]byte
	binary.BigEndian.PutUint64(b[:8], i)
	binary.BigEndian.PutUint16(b[8:], h)
	return b[:]
}

// HistoryRoot computes, from scratch, the root of the history tree of version
// v = len(events)-1 over events[0..v].
func HistoryRoot(events []D) D {
	if len(events) == 0 {
		panic("refmodel: empty history")
	}
	v := uint64(len(events) - 1)
	return histNode(events, 0, uint16(bits.Len64(v)), v)
}

// HistoryRootAt is the root for version v (uses events[0..v]).
func HistoryRootAt(events []D, v uint64) D {
	return histNode(events, 0, uint16(bits.Len64(v)), v)
}

// HistoryNodeAt is the hash of the node at (index i, height h) in the history
// tree of version v.
func HistoryNodeAt(events []D, i uint64, h uint16, v uint64) D { return histNode(events, i, h, v) }

func histNode(events []D, i uint64, h uint16, v uint64) D {
	if h == 0 {
		return sum(events[i][:], histPos(i, 0))
	}
	left := histNode(events, i, h-1, v)
	r := i + (uint64(1) << (h - 1))
	if r > v {
		return sum(left[:], histPos(i, h))
	}
	right := histNode(events, r, h-1, v)
	return sum(left[:], right[:], histPos(i, h))
}

// History is an incremental O(log n) per-append variant (frozen-node table)
// used for long logs; it is cross-checked against HistoryRoot in the
// refmodel tests.
type History struct {
	n      uint64
	frozen map[[10]byte]D // complete subtrees
	leaves []D
}

func NewHistory() *History { return &History{frozen: map[[10]byte]D{}} }

func (t *History) Len() uint64 { return t.n }

// Append adds a digest and returns the root of the new version.
func (t *History) Append(d D) D {
	v := t.n
	t.n++
	t.leaves = append(t.leaves, d)
	return t.node(0, uint16(bits.Len64(v)), v)
}

func (t *History) node(i uint64, h uint16, v uint64) D {
	var key [10]byte
	copy(key[:], histPos(i, h))
	if d, ok := t.frozen[key]; ok {
		return d
	}
	var out D
	if h == 0 {
		out = sum(t.leaves[i][:], key[:])
	} else {
		left := t.node(i, h-1, v)
		r := i + (uint64(1) << (h - 1))
		if r > v {
			out = sum(left[:], key[:])
		} else {
			right := t.node(r, h-1, v)
			out = sum(left[:], right[:], key[:])
		}
	}
	// complete iff last descendant <= v
	if i+(uint64(1)<<h)-1 <= v {
		t.frozen[key] = out
	}
	return out
}

// ------------------------------------------------------------------ hyper

// ShortcutLimit: nodes above this height are always inner nodes (the cached
// upper 24 levels); at or below it a subtree holding a single key collapses
// to a shortcut leaf.
const ShortcutLimit = 232

var hyperDefault [257]D

func init() {
	hyperDefault[0] = sum([]byte{0}, []byte{0})
	for i := 1; i <= 256; i++ {
		hyperDefault[i] = sum(hyperDefault[i-1][:], hyperDefault[i-1][:])
	}
}

func hyperPos(prefix []byte, h uint16) []byte {
	b := make([]byte, 34)
	binary.BigEndian.PutUint16(b[:2], h)
	copy(b[2:], prefix)
	return b
}

// KV is one entry of the hyper map: digest -> version.
type KV struct {
	Key     D
	Version uint64
}

func pad32(v uint64) []byte {
	b := make([]byte, 32)
	binary.BigEndian.PutUint64(b[24:], v)
	return b
}

// HyperRoot computes from scratch the root of the sparse tree holding m.
// (Inner nodes hash right child before left child: see DESIGN.md §4.1.)
func HyperRoot(m map[D]uint64) D {
	kvs := make([]KV, 0, len(m))
	for k, v := range m {
		kvs = append(kvs, KV{k, v})
	}
	sort.Slice(kvs, func(i, j int) bool { return bytes.Compare(kvs[i].Key[:], kvs[j].Key[:]) < 0 })
	var prefix [32]byte
	return hyperNode(kvs, prefix, 256)
}

func bit(k *D, i int) bool { return k[i/8]&(1<<uint(7-i%8)) != 0 }

func hyperNode(kvs []KV, prefix [32]byte, h int) D {
	if len(kvs) == 0 {
		return hyperDefault[h]
	}
	if h <= ShortcutLimit && (len(kvs) == 1 || h == 0) {
		return sum(pad32(kvs[0].Version), hyperPos(prefix[:], uint16(h)))
	}
	b := 256 - h // bit that splits this node
	idx := sort.Search(len(kvs), func(i int) bool { return bit(&kvs[i].Key, b) })
	left := hyperNode(kvs[:idx], prefix, h-1)
	rp := prefix
	rp[b/8] |= 1 << uint(7-b%8)
	right := hyperNode(kvs[idx:], rp, h-1)
	return sum(right[:], left[:], hyperPos(prefix[:], uint16(h)))
}

// ------------------------------------------------------------------- log

// Snapshot is what the log must return for an insertion.
type Snapshot struct {
	EventDigest, HistoryDigest, HyperDigest D
	Version                                 uint64
}

// Log is the model of the whole log: the sequence of event digests, the map
// digest -> last separate insertion, and every snapshot issued.
type Log struct {
	Events    []D
	Hyper     map[D]uint64
	Versions  map[D][]uint64
	Snapshots []Snapshot
	hist      *History
}

func NewLog() *Log {
	return &Log{Hyper: map[D]uint64{}, Versions: map[D][]uint64{}, hist: NewHistory()}
}

// AddBulk applies one insertion call (a single Add is a bulk of one) and
// returns the snapshots the real log must return for it. Within one bulk the
// first occurrence of a repeated digest wins in the hyper tree (the sorted
// insertion drops later duplicates); across calls the later call overwrites.
func (l *Log) AddBulk(ds []D) []Snapshot {
	first := uint64(len(l.Events))
	seen := map[D]bool{}
	hd := make([]D, len(ds))
	for i, d := range ds {
		v := first + uint64(i)
		l.Events = append(l.Events, d)
		l.Versions[d] = append(l.Versions[d], v)
		hd[i] = l.hist.Append(d)
		if !seen[d] {
			seen[d] = true
			l.Hyper[d] = v
		}
	}
	hy := HyperRoot(l.Hyper)
	out := make([]Snapshot, len(ds))
	for i, d := range ds {
		out[i] = Snapshot{EventDigest: d, HistoryDigest: hd[i], HyperDigest: hy, Version: first + uint64(i)}
	}
	l.Snapshots = append(l.Snapshots, out...)
	return out
}

func (l *Log) Len() int { return len(l.Events) }
