package c12

import (
	"encoding/json"
	"os"
	"path/filepath"
	"strconv"
	"strings"

	"verif/rig"
)

// corpusInputs mirrors seedCorpus for the deterministic tier, and adds a
// systematic family: every genuine answer of the fixture log with each
// top-level field replaced by each of a set of hostile JSON values.
func corpusInputs(incremental bool) [][]byte {
	b, ds := fixture()
	var out [][]byte
	var genuine [][]byte
	if incremental {
		for i := uint64(0); i < 9; i++ {
			for j := i; j < 9; j++ {
				p, _ := b.Bal.QueryConsistency(i, j)
				_, ir, _ := rig.WireIncremental(p)
				raw, _ := json.Marshal(ir)
				genuine = append(genuine, raw)
			}
		}
	} else {
		for e := 0; e < 9; e++ {
			for q := e; q < 9; q++ {
				p, _ := b.Bal.QueryDigestMembershipConsistency(rig.Dg(ds[e]), uint64(q))
				_, mr, _ := rig.WireMembership(p)
				raw, _ := json.Marshal(mr)
				genuine = append(genuine, raw)
			}
		}
	}
	out = append(out, genuine...)
	hostile := []string{`null`, `{}`, `[]`, `""`, `"AA=="`, `0`, `-1`, `18446744073709551615`, `1e400`, `true`,
		`{"":""}`, `{"7":"AA=="}`, `{"a|b":"AA=="}`, `{"-1|0":"AA=="}`, `{"1|2|3":"AA=="}`, `{"|":null}`, `{"0|0":null}`,
		`{"99999999999999999999|1":"AA=="}`, `{"0x00|256":"AA=="}`, `{"0|0":"` + strings.Repeat("A", 400) + `"}`}
	for gi, g := range genuine {
		if gi%5 != 0 {
			continue
		}
		var m map[string]json.RawMessage
		json.Unmarshal(g, &m)
		for k := range m {
			for _, hv := range hostile {
				mm := map[string]json.RawMessage{}
				for kk, vv := range m {
					mm[kk] = vv
				}
				mm[k] = json.RawMessage(hv)
				raw, err := json.Marshal(mm)
				if err == nil {
					out = append(out, raw)
				}
			}
		}
	}
	for _, s := range []string{`null`, `{}`, `[]`, `0`, `"x"`, ``, `{`, `{"Exists":true,"Hyper":null,"History":null}`} {
		out = append(out, []byte(s))
	}
	return out
}

// savedInputs reads the Go fuzz corpus files (go test fuzz v1 format, one
// []byte argument) that campaigns left under testdata/fuzz/<name>.
func savedInputs(name string) [][]byte {
	var out [][]byte
	dir := filepath.Join(os.Getenv("VERIF_DIR"), "harness", "c12", "testdata", "fuzz", name)
	files, _ := filepath.Glob(filepath.Join(dir, "*"))
	for _, f := range files {
		b, err := os.ReadFile(f)
		if err != nil {
			continue
		}
		lines := strings.Split(string(b), "\n")
		if len(lines) < 2 || !strings.HasPrefix(lines[0], "go test fuzz v1") {
			continue
		}
		l := strings.TrimSpace(lines[1])
		if strings.HasPrefix(l, "[]byte(") && strings.HasSuffix(l, ")") {
			if s, err := strconv.Unquote(l[7 : len(l)-1]); err == nil {
				out = append(out, []byte(s))
			}
		}
	}
	return out
}
