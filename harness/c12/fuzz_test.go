package c12

import (
	"encoding/json"
	"net/http"
	"os"
	"sync"
	"testing"

	"github.com/bbva/qed/api/apihttp"
	"github.com/bbva/qed/balloon"

	"verif/gen"
	"verif/pbt"
	"verif/refmodel"
	"verif/rig"
)

func apiMux(api *rig.API) http.Handler { return apihttp.NewApiHttp(api) }

// a small fixed log that gives the fuzz targets genuine answers and
// authentic snapshots
var (
	fixOnce sync.Once
	fixB    *rig.B
	fixDs   []refmodel.D
)

func fixture() (*rig.B, []refmodel.D) {
	fixOnce.Do(func() {
		h := rig.LogHistory{Distinct: true}
		for i := 0; i < 9; i++ {
			d := refmodel.EventDigest([]byte{byte(i), 'e'})
			if i == 5 { // shares a 30-bit prefix with event 2
				d = refmodel.EventDigest([]byte{2, 'e'})
				d[3] ^= 2
			}
			h.Digests = append(h.Digests, gen.Hex(d))
		}
		h.Calls = []gen.Call{{N: 1}, {Bulk: true, N: 3}, {N: 1}, {Bulk: true, N: 4}}
		b, _, err := h.Build(false)
		if err != nil {
			panic(err)
		}
		fixB, fixDs = b, h.Ds()
	})
	return fixB, fixDs
}

type BytesH struct {
	Incremental bool   `json:"inc"`
	Data        []byte `json:"data"`
}

func execBytes(h BytesH) (bool, error) {
	b, ds := fixture()
	wrong := &balloon.Snapshot{HistoryDigest: make([]byte, 32), HyperDigest: []byte{9}}
	if h.Incremental {
		return VerifyIncrementalBytes(h.Data, []*balloon.Snapshot{b.Snaps[2], b.Snaps[7], wrong})
	}
	s, _ := b.ClientSnapshot(4, 8)
	return VerifyMembershipBytes(h.Data, rig.Dg(ds[2]), []*balloon.Snapshot{s, wrong})
}

func seedCorpus(f *testing.F, incremental bool) {
	b, ds := fixture()
	if incremental {
		for _, ij := range [][2]uint64{{0, 0}, {2, 7}, {3, 8}, {0, 8}} {
			p, _ := b.Bal.QueryConsistency(ij[0], ij[1])
			_, ir, _ := rig.WireIncremental(p)
			raw, _ := json.Marshal(ir)
			f.Add(raw)
		}
		f.Add([]byte(`{"Start":1,"End":2,"AuditPath":{"7":"AA==","a|b":"","-1|0":null,"1|2|3":"AQ=="}}`))
		f.Add([]byte(`{"Start":18446744073709551615,"End":9223372036854775807,"AuditPath":null}`))
	} else {
		for _, eq := range [][2]int{{2, 4}, {5, 8}, {0, 0}, {8, 8}} {
			p, _ := b.Bal.QueryDigestMembershipConsistency(rig.Dg(ds[eq[0]]), uint64(eq[1]))
			_, mr, _ := rig.WireMembership(p)
			raw, _ := json.Marshal(mr)
			f.Add(raw)
		}
		f.Add([]byte(`{"Exists":true,"Hyper":{"":"AA=="},"History":{"7":"AA==","|":""},"CurrentVersion":18446744073709551615,"QueryVersion":9223372036854775807,"ActualVersion":0,"KeyDigest":""}`))
		f.Add([]byte(`{"Exists":true,"Hyper":null,"History":null}`))
	}
	f.Add([]byte("null"))
	f.Add([]byte("{}"))
	f.Add([]byte(`{"AuditPath":{"0|0":"AA"}}`))
}

func fuzzBody(t *testing.T, unit string, incremental bool, data []byte, rec *pbt.Rec) {
	reached, err := execBytes(BytesH{incremental, data})
	if rec != nil {
		rec.CaseHash(pbt.Hash(data), reached)
	}
	if err != nil {
		p := pbt.SaveReplay("C12", unit, BytesH{incremental, data}, err)
		pbt.Violation("C12", p, err.Error())
		t.Fatalf("%v", err)
	}
}

// FuzzMembershipAnswer / FuzzIncrementalAnswer: bytes -> json -> proof ->
// verification, coverage-guided (thorough tier); the quick tier re-runs the
// seed corpus and everything the campaigns saved under testdata/fuzz.
func FuzzMembershipAnswer(f *testing.F) {
	seedCorpus(f, false)
	f.Fuzz(func(t *testing.T, data []byte) { fuzzBody(t, "TestReplayBytes", false, data, nil) })
}

func FuzzIncrementalAnswer(f *testing.F) {
	seedCorpus(f, true)
	f.Fuzz(func(t *testing.T, data []byte) { fuzzBody(t, "TestReplayBytes", true, data, nil) })
}

// TestReplayBytes re-executes a saved byte-level failure.
func TestReplayBytes(t *testing.T) {
	var h BytesH
	ok, err := pbt.LoadReplay("TestReplayBytes", &h)
	if err != nil {
		t.Fatal(err)
	}
	if !ok {
		t.Skip("no byte-level replay requested")
	}
	if _, err := execBytes(h); err != nil {
		pbt.Violation("C12", os.Getenv("VERIF_REPLAY"), err.Error())
		t.Fatal(err)
	}
}

const ruleCorpus = "deterministic tier of the byte-level targets: the seed corpus (genuine answers + hostile constants) and every input saved by earlier fuzz campaigns under testdata/fuzz is decoded and verified under the totality oracle. Non-trivial: input decodes as JSON. distinct = FNV-64 of the bytes."

// TestCorpus runs both fuzz targets' corpora without the fuzzing engine and
// records what that covered.
func TestCorpus(t *testing.T) {
	rec := pbt.NewRec("C12", "TestCorpus", ruleCorpus)
	defer rec.Flush()
	for _, inc := range []bool{false, true} {
		name := "FuzzMembershipAnswer"
		if inc {
			name = "FuzzIncrementalAnswer"
		}
		var inputs [][]byte
		collect := &testing.F{}
		_ = collect
		inputs = append(inputs, corpusInputs(inc)...)
		inputs = append(inputs, savedInputs(name)...)
		for _, in := range inputs {
			fuzzBody(t, "TestReplayBytes", inc, in, rec)
		}
		rec.Sample(1, map[string]interface{}{"target": name, "inputs": len(inputs), "first": clip(inputs[0])})
	}
}
