// C12 — the client verifier is total: hostile answers are rejected, never
// crash it.
package c12

import (
	"encoding/json"
	"fmt"
	"runtime"
	"testing"
	"time"

	"github.com/bbva/qed/balloon"
	"github.com/bbva/qed/crypto/hashing"
	"github.com/bbva/qed/protocol"
	"pgregory.net/rapid"

	"verif/adv"
	"verif/gen"
	"verif/pbt"
	"verif/refmodel"
	"verif/rig"
)

type Cand struct {
	Incremental bool     `json:"inc"`
	Ev, Q       int      // membership base: event index (or -1-k non-member), query version; incremental base: (Ev,Q) = (i,j)
	Ops         []adv.Op `json:"ops"`
	AskOther    int      `json:"ask"` // -1 own digest
}

type H struct {
	rig.LogHistory
	NonMembers []string `json:"non_members"`
	Cands      []Cand   `json:"cands"`
}

const rule = "rapid-drawn logs (n<=40) and, per log, drawn candidate answers: genuine wire-form membership / incremental answers under 1-4 operators from the C02 grammar plus structural malformations {malformed audit-path keys ('', '7', 'a|b', '-1|0', '1|2|3', overflowing numbers), digests and path values of length 0,1,7,31,33,64,300, nil/empty maps, hundreds of extra entries, versions up to 2^64-1}; each candidate goes json.Marshal -> json.Unmarshal -> ToBalloonProof/ToIncrementalProof -> DigestVerify/Verify against authentic and wrong snapshots. Oracle: every call returns (true/false/error) within 5 s, does not panic, allocates < 256 MB. evaluations = candidates. Non-trivial: the candidate decodes as JSON and reaches verification with at least one operator that changed it; distinct = FNV-64 of (log, candidate)."

func TestStructured(t *testing.T) {
	rec := pbt.NewRec("C12", "TestStructured", rule)
	ncand := pbt.Scale(300, 800)
	kinds := append(append([]string{}, adv.OpKinds...), adv.StructOpKinds...)
	kinds = append(kinds, adv.StructOpKinds...) // bias towards malformations
	pbt.Run(t, rec, func(rt *rapid.T) H {
		h := H{LogHistory: rig.DrawLog(rt, 40, true, false)}
		n := len(h.Digests)
		for i := 0; i < 2; i++ {
			var d refmodel.D
			copy(d[:], rapid.SliceOfN(rapid.Byte(), 32, 32).Draw(rt, "nm"))
			h.NonMembers = append(h.NonMembers, gen.Hex(d))
		}
		for i := 0; i < ncand; i++ {
			c := Cand{Incremental: rapid.IntRange(0, 2).Draw(rt, "inc") == 0, AskOther: -1}
			c.Ev = rapid.IntRange(0, n-1).Draw(rt, "ev")
			c.Q = rapid.IntRange(c.Ev, n-1).Draw(rt, "q")
			if !c.Incremental && rapid.IntRange(0, 5).Draw(rt, "nonmember") == 0 {
				c.Ev = -1 - rapid.IntRange(0, 1).Draw(rt, "nm")
			}
			for j, k := 0, rapid.IntRange(1, 4).Draw(rt, "nops"); j < k; j++ {
				c.Ops = append(c.Ops, adv.Op{Kind: rapid.SampledFrom(kinds).Draw(rt, "op"), A: rapid.IntRange(0, 63).Draw(rt, "a"), B: rapid.IntRange(0, 63).Draw(rt, "b")})
			}
			if rapid.IntRange(0, 3).Draw(rt, "askother") == 0 {
				c.AskOther = rapid.IntRange(0, n+1).Draw(rt, "ask")
			}
			h.Cands = append(h.Cands, c)
		}
		return h
	}, exec)
}

// total runs f under the totality oracle.
func total(what string, f func()) error {
	var before runtime.MemStats
	runtime.ReadMemStats(&before)
	done := make(chan string, 1)
	go func() {
		defer func() {
			if r := recover(); r != nil {
				done <- fmt.Sprintf("panic: %v", r)
				return
			}
			done <- ""
		}()
		f()
	}()
	select {
	case msg := <-done:
		if msg != "" {
			return fmt.Errorf("%s: %s", what, msg)
		}
	case <-time.After(5 * time.Second):
		return fmt.Errorf("%s: no result after 5 s", what)
	}
	var after runtime.MemStats
	runtime.ReadMemStats(&after)
	if d := after.TotalAlloc - before.TotalAlloc; d > 256<<20 {
		return fmt.Errorf("%s: allocated %d MB", what, d>>20)
	}
	return nil
}

func sha() hashing.Hasher { return hashing.NewSha256Hasher() }

// VerifyMembershipBytes is what a client does with the bytes of an answer.
func VerifyMembershipBytes(raw []byte, asked hashing.Digest, snaps []*balloon.Snapshot) (reached bool, err error) {
	var mr *protocol.MembershipResult
	if json.Unmarshal(raw, &mr) != nil {
		return false, nil
	}
	err = total("membership answer "+clip(raw), func() {
		if mr == nil {
			return // client.Membership answers "empty membership result" (covered by TestScriptedServer)
		}
		p := protocol.ToBalloonProof(mr, hashing.NewSha256Hasher)
		for _, s := range snaps {
			p.DigestVerify(asked, s)
		}
		p.Verify([]byte("some event"), snaps[0])
	})
	return true, err
}

// VerifyIncrementalBytes is what a monitor does with the bytes of an answer.
func VerifyIncrementalBytes(raw []byte, snaps []*balloon.Snapshot) (reached bool, err error) {
	var ir *protocol.IncrementalResponse
	if json.Unmarshal(raw, &ir) != nil {
		return false, nil
	}
	err = total("incremental answer "+clip(raw), func() {
		if ir == nil {
			return // client.Incremental answers "empty incremental response" (covered by TestScriptedServer)
		}
		p := protocol.ToIncrementalProof(ir, hashing.NewSha256Hasher)
		for i := range snaps {
			p.Verify(snaps[i], snaps[(i+1)%len(snaps)])
		}
	})
	return true, err
}

func clip(b []byte) string {
	if len(b) > 300 {
		return string(b[:300]) + "…"
	}
	return string(b)
}

func exec(h H, rec *pbt.Rec) error {
	b, m, err := h.Build(false)
	if err != nil {
		return err
	}
	var nm []refmodel.D
	for _, s := range h.NonMembers {
		nm = append(nm, gen.UnHex(s))
	}
	w := adv.NewWorld(b, m, h.Ds(), nm)
	n := w.N
	logHash := pbt.Hash(h.LogHistory)
	wrong := &balloon.Snapshot{HistoryDigest: make([]byte, 32), HyperDigest: []byte{1, 2, 3}}
	for ci, c := range h.Cands {
		var raw []byte
		var asked refmodel.D
		var snaps []*balloon.Snapshot
		if c.Incremental {
			i, j := c.Ev%n, c.Q%n
			if i < 0 {
				i = 0
			}
			if i > j {
				i, j = j, i
			}
			p, err := b.Bal.QueryConsistency(uint64(i), uint64(j))
			if err != nil {
				return err
			}
			_, ir, err := rig.WireIncremental(p)
			if err != nil {
				return err
			}
			for _, op := range c.Ops {
				w.ApplyIncremental(ir, op)
			}
			raw, _ = json.Marshal(ir)
			snaps = []*balloon.Snapshot{b.Snaps[i], b.Snaps[j], wrong}
			reached, err := VerifyIncrementalBytes(raw, snaps)
			if err != nil {
				return fmt.Errorf("candidate %d (incremental base (%d,%d) ops=%v): %v", ci, i, j, c.Ops, err)
			}
			rec.CaseHash(logHash^pbt.Hash(c)*1099511628211, reached)
		} else {
			di := c.Ev
			if di < 0 {
				di = n + (-1-c.Ev)%len(nm)
			} else {
				di %= n
			}
			mr, err := w.Genuine(di, c.Q%n)
			if err != nil {
				continue
			}
			for _, op := range c.Ops {
				w.Apply(mr, op)
				w.ApplyStruct(mr, op)
			}
			raw, _ = json.Marshal(mr)
			asked = w.Pool(di)
			if c.AskOther >= 0 {
				asked = w.Pool(c.AskOther)
			}
			q, cur := mr.QueryVersion, mr.CurrentVersion
			if q >= uint64(n) {
				q = uint64(n - 1)
			}
			if cur >= uint64(n) {
				cur = uint64(n - 1)
			}
			s, _ := b.ClientSnapshot(q, cur)
			reached, err := VerifyMembershipBytes(raw, rig.Dg(asked), []*balloon.Snapshot{s, wrong})
			if err != nil {
				return fmt.Errorf("candidate %d (membership base ev=%d q=%d ops=%v): %v", ci, c.Ev, c.Q, c.Ops, err)
			}
			rec.CaseHash(logHash^pbt.Hash(c)*1099511628211, reached)
		}
		for _, op := range c.Ops {
			rec.Class("op:"+op.Kind, 1)
		}
	}
	rec.Count("logs", 1)
	hs := h
	if len(hs.Cands) > 5 {
		hs.Cands = hs.Cands[:5]
	}
	rec.Sample(len(h.Digests), hs)
	return nil
}
