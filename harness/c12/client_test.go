package c12

import (
	"encoding/json"
	"fmt"
	"net/http"
	"net/http/httptest"
	"sync"
	"testing"

	"github.com/bbva/qed/balloon"
	"github.com/bbva/qed/client"
	"github.com/bbva/qed/protocol"
	"pgregory.net/rapid"

	"verif/pbt"
	"verif/rig"
)

// Resp is what the scripted server answers to the k-th request on a path.
type Resp struct {
	Status int    `json:"status"`
	Kind   string `json:"kind"` // how the body is made
	A, B   int
}

type CH struct {
	rig.LogHistory
	Resps []Resp `json:"resps"`
	Seq   []int  `json:"client_calls"` // which client call to make, in order
}

var bodyKinds = []string{"genuine", "null", "empty", "{}", "[]", "string", "number", "truncated", "garbage",
	"wrongtypes", "nullfields", "neg-version", "float-version", "deep", "dup-keys", "snapshot-null", "signed-null"}

var statuses = []int{200, 200, 200, 200, 201, 204, 400, 404, 412, 500, 503}

const ruleClient = "client.HTTPClient (Membership, MembershipDigest, Incremental, MembershipAutoVerify, IncrementalAutoVerify, GetSnapshot, then verification of whatever proof came back) against a scripted httptest server that answers each request with a drawn status {200,201,204,400,404,412,500,503} and a drawn body {genuine answer, null, empty, {}, [], string, number, truncated genuine, garbage, wrong JSON types per field, null fields, negative / float versions, deep nesting, duplicated keys, null snapshot parts}. Half of the calls get exactly one hostile answer among genuine ones. The harness uses the results the way the CLI and the agents do: no error means the proof / snapshot is used. Oracle: every client call returns (value or error) within 5 s without panicking, and using a result that came without an error does not panic either. evaluations = client calls. Non-trivial: the scripted body was served with a 2xx status (so it reached decoding) and is not the genuine answer; distinct = FNV-64 of (log, call, response)."

func TestScriptedServer(t *testing.T) {
	rec := pbt.NewRec("C12", "TestScriptedServer", ruleClient)
	ncalls := pbt.Scale(60, 150)
	pbt.Run(t, rec, func(rt *rapid.T) CH {
		h := CH{LogHistory: rig.DrawLog(rt, 12, true, false)}
		for i := 0; i < ncalls; i++ {
			h.Seq = append(h.Seq, rapid.IntRange(0, 5).Draw(rt, "call"))
			// a call makes up to three requests; half of the calls get exactly one hostile
			// answer among genuine ones, so that the multi-request calls (the *AutoVerify
			// ones) get past their other requests and reach verification with it
			only := -1
			if rapid.Bool().Draw(rt, "one-hostile") {
				only = rapid.IntRange(0, 2).Draw(rt, "which")
			}
			for j := 0; j < 3; j++ {
				r := Resp{
					Status: rapid.SampledFrom(statuses).Draw(rt, "status"),
					Kind:   rapid.SampledFrom(bodyKinds).Draw(rt, "kind"),
					A:      rapid.IntRange(0, 40).Draw(rt, "a"),
					B:      rapid.IntRange(0, 40).Draw(rt, "b"),
				}
				if only >= 0 && j != only {
					r.Status, r.Kind = 200, "genuine"
				} else if only >= 0 && rapid.Bool().Draw(rt, "ok-status") {
					r.Status = 200
				}
				h.Resps = append(h.Resps, r)
			}
		}
		return h
	}, execClient)
}

func mutateJSON(genuine []byte, r Resp) []byte {
	switch r.Kind {
	case "genuine":
		return genuine
	case "null":
		return []byte("null")
	case "empty":
		return nil
	case "{}":
		return []byte("{}")
	case "[]":
		return []byte("[]")
	case "string":
		return []byte(`"proof"`)
	case "number":
		return []byte("42")
	case "truncated":
		if len(genuine) == 0 {
			return nil
		}
		return genuine[:(r.A*len(genuine))/41]
	case "garbage":
		out := make([]byte, 1+r.A)
		for i := range out {
			out[i] = byte(r.B*17 + i*13)
		}
		return out
	}
	var m map[string]interface{}
	if json.Unmarshal(genuine, &m) != nil || m == nil {
		return []byte("{}")
	}
	keys := make([]string, 0, len(m))
	for k := range m {
		keys = append(keys, k)
	}
	for i := 1; i < len(keys); i++ {
		for j := i; j > 0 && keys[j] < keys[j-1]; j-- {
			keys[j], keys[j-1] = keys[j-1], keys[j]
		}
	}
	k := keys[r.A%len(keys)]
	switch r.Kind {
	case "wrongtypes":
		m[k] = []interface{}{"x", 1, nil, true, map[string]interface{}{"a": 1}}[r.B%5]
	case "nullfields":
		m[k] = nil
	case "neg-version":
		for _, f := range []string{"ActualVersion", "QueryVersion", "CurrentVersion", "Start", "End", "Version"} {
			if _, ok := m[f]; ok && r.B%2 == 0 {
				m[f] = -1 - r.A
			}
		}
	case "float-version":
		for _, f := range []string{"ActualVersion", "QueryVersion", "CurrentVersion", "Start", "End", "Version"} {
			if _, ok := m[f]; ok {
				m[f] = []interface{}{1.5, 1e30, 18446744073709551615.0, "7"}[r.B%4]
			}
		}
	case "deep":
		var v interface{} = "x"
		for i := 0; i < 50+r.A*20; i++ {
			v = map[string]interface{}{"a": v}
		}
		m[k] = v
	case "dup-keys":
		b, _ := json.Marshal(m)
		return append(append(b[:len(b)-1], []byte(`,"`+k+`":null`)...), '}')
	case "snapshot-null":
		m["Snapshot"] = nil
	case "signed-null":
		m["Snapshot"] = map[string]interface{}{"HistoryDigest": nil, "HyperDigest": "AA==", "Version": r.A}
	}
	b, _ := json.Marshal(m)
	return b
}

func execClient(h CH, rec *pbt.Rec) error {
	b, m, err := h.Build(false)
	if err != nil {
		return err
	}
	n := m.Len()
	ds := h.Ds()
	logHash := pbt.Hash(h.LogHistory)

	var mu sync.Mutex
	next := 0
	served2xx := false
	nongenuine := false
	api := &rig.API{B: b}
	honest := newHonest(api, b)
	srv := httptest.NewServer(http.HandlerFunc(func(w http.ResponseWriter, r *http.Request) {
		mu.Lock()
		var resp Resp
		if next < len(h.Resps) {
			resp = h.Resps[next]
		} else {
			resp = Resp{Status: 200, Kind: "genuine"}
		}
		next++
		mu.Unlock()
		rr := httptest.NewRecorder()
		honest.ServeHTTP(rr, r)
		body := mutateJSON(rr.Body.Bytes(), resp)
		mu.Lock()
		if resp.Status < 300 {
			served2xx = true
			if resp.Kind != "genuine" {
				nongenuine = true
			}
		}
		mu.Unlock()
		w.WriteHeader(resp.Status)
		w.Write(body)
	}))
	defer srv.Close()
	c, err := client.NewSimpleHTTPClient(&http.Client{}, []string{srv.URL}, srv.URL)
	if err != nil {
		return err
	}
	defer c.Close()

	for ci, call := range h.Seq {
		mu.Lock()
		next = ci * 3
		served2xx, nongenuine = false, false
		mu.Unlock()
		e := ds[ci%n]
		q := uint64((ci * 7) % n)
		snap := b.Snaps[q]
		var what string
		f := func() {}
		switch call {
		case 0:
			what = "Membership"
			f = func() {
				if p, err := c.Membership([]byte("event"), &q); err == nil { // as callers do: no error means there is a proof
					p.Verify([]byte("event"), snap)
				}
			}
		case 1:
			what = "MembershipDigest"
			f = func() {
				if p, err := c.MembershipDigest(rig.Dg(e), &q); err == nil {
					c.MembershipVerify(rig.Dg(e), p, snap)
				}
			}
		case 2:
			what = "Incremental"
			f = func() {
				if p, err := c.Incremental(0, q); err == nil {
					c.IncrementalVerify(p, b.Snaps[0], snap)
				}
			}
		case 3:
			what = "MembershipAutoVerify"
			f = func() { c.MembershipAutoVerify(rig.Dg(e), &q) }
		case 4:
			what = "IncrementalAutoVerify"
			f = func() { c.IncrementalAutoVerify(0, q) }
		case 5:
			what = "GetSnapshot"
			f = func() {
				if s, err := c.GetSnapshot(q); err == nil {
					_ = balloon.Snapshot(*s)
				}
			}
		}
		if err := total(fmt.Sprintf("call %d: client.%s with scripted responses %+v", ci, what, h.Resps[ci*3:ci*3+3]), f); err != nil {
			return err
		}
		mu.Lock()
		nt := served2xx && nongenuine
		mu.Unlock()
		rec.CaseHash(logHash^pbt.Hash([]interface{}{call, h.Resps[ci*3 : ci*3+3]})*1099511628211, nt)
		rec.Class("call:"+what, 1)
	}
	hs := h
	if len(hs.Seq) > 6 {
		hs.Seq, hs.Resps = hs.Seq[:6], hs.Resps[:18]
	}
	rec.Sample(n, hs)
	return nil
}

// newHonest serves the real API handlers plus a snapshot store built from
// the snapshots the log issued.
func newHonest(api *rig.API, b *rig.B) http.Handler {
	mux := http.NewServeMux()
	mux.Handle("/", apiMux(api))
	mux.HandleFunc("/snapshot", func(w http.ResponseWriter, r *http.Request) {
		var v uint64
		fmt.Sscanf(r.URL.Query().Get("v"), "%d", &v)
		if v >= uint64(len(b.Snaps)) {
			http.Error(w, "not found", 404)
			return
		}
		s := protocol.Snapshot(*b.Snaps[v])
		out, _ := json.Marshal(&protocol.SignedSnapshot{Snapshot: &s, Signature: []byte{1}})
		w.Write(out)
	})
	return mux
}
