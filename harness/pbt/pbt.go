// Package pbt is the glue every property package uses: evidence recording,
// replay files, known-findings lookup and the rapid wrapper that makes every
// generated case a plain-data history executed by a pure function.
package pbt

import (
	"bufio"
	"encoding/binary"
	"encoding/json"
	"fmt"
	"hash/fnv"
	"os"
	"path/filepath"
	"regexp"
	"runtime"
	"runtime/debug"
	"sort"
	"strconv"
	"strings"
	"sync"
	"testing"

	"pgregory.net/rapid"
)

// ------------------------------------------------------------- environment

func env(k, def string) string {
	if v := os.Getenv(k); v != "" {
		return v
	}
	return def
}

// Tier is "quick" or "thorough".
func Tier() string { return env("VERIF_TIER", "quick") }

// Thorough reports whether the thorough tier is running.
func Thorough() bool { return Tier() == "thorough" }

// Shard is the index of this process among the parallel shards of a unit.
func Shard() int { n, _ := strconv.Atoi(env("VERIF_SHARD", "0")); return n }

// Scale picks a bound by tier.
func Scale(quick, thorough int) int {
	if Thorough() {
		return thorough
	}
	return quick
}

// ---------------------------------------------------------------- evidence

// Rec accumulates what one test process covered; Flush writes it as a part
// file that the driver merges into /verif/evidence/<id>.json.
type Rec struct {
	mu          sync.Mutex
	ID, Unit    string
	Rule        string
	Assumptions []string
	evals       int64
	nontriv     map[uint64]struct{}
	classes     map[string]int64
	counters    map[string]int64
	samples     []sample
	exhaustive  *bool
	violations  int
}

type sample struct {
	Size int
	Val  interface{}
}

const maxHashes = 4 << 20

// NewRec creates the recorder of a unit (one Test function) of a property.
func NewRec(id, unit, rule string, assumptions ...string) *Rec {
	return &Rec{ID: id, Unit: unit, Rule: rule, Assumptions: assumptions,
		nontriv: map[uint64]struct{}{}, classes: map[string]int64{}, counters: map[string]int64{}}
}

// Hash is the 64-bit FNV-1a of the canonical JSON of v.
func Hash(v interface{}) uint64 {
	b, err := json.Marshal(v)
	if err != nil {
		panic(err)
	}
	h := fnv.New64a()
	h.Write(b)
	return h.Sum64()
}

// Case records one executed case: canon identifies it for distinctness,
// nontrivial is the property's stated rule applied to this case.
func (r *Rec) Case(canon interface{}, nontrivial bool, classes ...string) {
	var h uint64
	if nontrivial {
		h = Hash(canon)
	}
	r.mu.Lock()
	defer r.mu.Unlock()
	r.evals++
	if nontrivial && len(r.nontriv) < maxHashes {
		r.nontriv[h] = struct{}{}
	}
	for _, c := range classes {
		r.classes[c]++
	}
}

// CaseHash is Case for callers that computed the identity hash themselves
// (hot loops that cannot afford JSON).
func (r *Rec) CaseHash(h uint64, nontrivial bool) {
	r.mu.Lock()
	r.evals++
	if nontrivial && len(r.nontriv) < maxHashes {
		r.nontriv[h] = struct{}{}
	}
	r.mu.Unlock()
}

// Class bumps a class label without counting an evaluation.
func (r *Rec) Class(c string, n int64) {
	r.mu.Lock()
	r.classes[c] += n
	r.mu.Unlock()
}

// Count bumps a named sub-check counter (pairs_verified, mutants_rejected, …).
func (r *Rec) Count(name string, n int64) {
	r.mu.Lock()
	r.counters[name] += n
	r.mu.Unlock()
}

// Exhaustive records whether a finite space was fully enumerated.
func (r *Rec) Exhaustive(b bool) {
	r.mu.Lock()
	if r.exhaustive == nil || !b {
		r.exhaustive = &b
	}
	r.mu.Unlock()
}

// Sample keeps a few written-out cases: the first, and the largest seen.
func (r *Rec) Sample(size int, v interface{}) {
	r.mu.Lock()
	defer r.mu.Unlock()
	if len(r.samples) < 3 {
		r.samples = append(r.samples, sample{size, v})
		return
	}
	// keep slot 0 (first); replace the smaller of the rest if this is larger
	mi := 1
	for i := 2; i < len(r.samples); i++ {
		if r.samples[i].Size < r.samples[mi].Size {
			mi = i
		}
	}
	if size > r.samples[mi].Size {
		r.samples[mi] = sample{size, v}
	}
}

type part struct {
	ID          string           `json:"id"`
	Unit        string           `json:"unit"`
	Shard       int              `json:"shard"`
	Rule        string           `json:"rule"`
	Assumptions []string         `json:"assumptions"`
	Evals       int64            `json:"evaluations"`
	NonTrivial  int              `json:"nontrivial_in_shard"`
	HashFile    string           `json:"hash_file"`
	Classes     map[string]int64 `json:"classes"`
	Counters    map[string]int64 `json:"counters"`
	Samples     []interface{}    `json:"samples"`
	Exhaustive  *bool            `json:"exhaustive,omitempty"`
	Violations  int              `json:"violations"`
}

// Flush writes the part file (and the sorted hash list) into $VERIF_EVDIR.
func (r *Rec) Flush() {
	dir := os.Getenv("VERIF_EVDIR")
	if dir == "" {
		return
	}
	r.mu.Lock()
	defer r.mu.Unlock()
	base := fmt.Sprintf("%s.%s.%d", r.ID, r.Unit, Shard())
	hs := make([]uint64, 0, len(r.nontriv))
	for h := range r.nontriv {
		hs = append(hs, h)
	}
	sort.Slice(hs, func(i, j int) bool { return hs[i] < hs[j] })
	hf := filepath.Join(dir, base+".hashes")
	f, err := os.Create(hf)
	if err == nil {
		w := bufio.NewWriter(f)
		var b [8]byte
		for _, h := range hs {
			binary.LittleEndian.PutUint64(b[:], h)
			w.Write(b[:])
		}
		w.Flush()
		f.Close()
	}
	p := part{ID: r.ID, Unit: r.Unit, Shard: Shard(), Rule: r.Rule, Assumptions: r.Assumptions,
		Evals: r.evals, NonTrivial: len(hs), HashFile: hf, Classes: r.classes, Counters: r.counters,
		Exhaustive: r.exhaustive, Violations: r.violations}
	for _, s := range r.samples {
		p.Samples = append(p.Samples, s.Val)
	}
	b, _ := json.Marshal(p)
	os.WriteFile(filepath.Join(dir, base+".part.json"), b, 0o644)
}

// ----------------------------------------------------------------- replays

// Replay is the on-disk form of a failing (shrunk) case.
type Replay struct {
	Property string          `json:"property"`
	Unit     string          `json:"unit"`
	Error    string          `json:"error"`
	History  json.RawMessage `json:"history"`
}

func replayDir(id string) string {
	d := env("VERIF_REPLAYDIR", filepath.Join(env("VERIF_DIR", "/verif"), "replays", id, "found"))
	os.MkdirAll(d, 0o755)
	return d
}

// SaveReplay writes a failing history; the path is deterministic per
// (unit, seed, shard) so that each shrink step overwrites the previous one and
// the file left at the end is the minimal reproduction.
func SaveReplay(id, unit string, history interface{}, err error) string {
	hb, _ := json.MarshalIndent(history, "", " ")
	rp := Replay{Property: id, Unit: unit, Error: err.Error(), History: hb}
	b, _ := json.MarshalIndent(rp, "", " ")
	p := filepath.Join(replayDir(id), fmt.Sprintf("%s-seed%s-shard%d.json", unit, env("VERIF_SEED", "0"), Shard()))
	os.WriteFile(p, b, 0o644)
	return p
}

// LoadReplay loads the replay named by $VERIF_REPLAY if it belongs to unit;
// ok=false means "nothing to replay for this unit".
func LoadReplay(unit string, history interface{}) (ok bool, err error) {
	p := os.Getenv("VERIF_REPLAY")
	if p == "" {
		return false, nil
	}
	b, err := os.ReadFile(p)
	if err != nil {
		return false, err
	}
	var rp Replay
	if err := json.Unmarshal(b, &rp); err != nil {
		return false, err
	}
	if rp.Unit != unit {
		return false, nil
	}
	return true, json.Unmarshal(rp.History, history)
}

// ReplayFiles lists the committed replay files of a unit (regression tier).
func ReplayFiles(id, unit string) []string {
	m, _ := filepath.Glob(filepath.Join(env("VERIF_DIR", "/verif"), "replays", id, unit+"-*.json"))
	sort.Strings(m)
	return m
}

// Violation prints the line the driver turns into "VIOLATION property=…".
func Violation(id, replay, msg string) {
	msg = strings.ReplaceAll(msg, "\n", " | ")
	if len(msg) > 600 {
		msg = msg[:600] + "…"
	}
	fmt.Printf("\nVERIF-VIOLATION property=%s replay=%s msg=%s\n", id, replay, msg)
}

// KnownFinding prints the line the driver turns into "KNOWN-FINDING: …".
func KnownFinding(id, fid, what string) {
	fmt.Printf("\nVERIF-KNOWN-FINDING property=%s id=%s what=%s\n", id, fid, strings.ReplaceAll(what, "\n", " "))
}

// Inconclusive tells the driver a unit could not finish for a reason that is
// not a property violation (time budget, resource).
func Inconclusive(id, why string) {
	fmt.Printf("\nVERIF-INCONCLUSIVE property=%s why=%s\n", id, strings.ReplaceAll(why, "\n", " "))
}

// ---------------------------------------------------------- known findings

// Finding is one line of /verif/known_findings.jsonl.
type Finding struct {
	Property  string                 `json:"property"`
	ID        string                 `json:"id"`
	Status    string                 `json:"status"` // "known" | "fixed"
	What      string                 `json:"what"`
	Signature map[string]interface{} `json:"signature"`
	Commit    string                 `json:"commit,omitempty"`
}

var (
	findingsOnce sync.Once
	findings     []Finding
)

// Findings loads the committed known-findings file (read-only at run time).
func Findings() []Finding {
	findingsOnce.Do(func() {
		p := env("VERIF_KNOWN", filepath.Join(env("VERIF_DIR", "/verif"), "known_findings.jsonl"))
		f, err := os.Open(p)
		if err != nil {
			return
		}
		defer f.Close()
		sc := bufio.NewScanner(f)
		sc.Buffer(make([]byte, 1<<20), 1<<20)
		for sc.Scan() {
			line := strings.TrimSpace(sc.Text())
			if line == "" || strings.HasPrefix(line, "#") {
				continue
			}
			var fd Finding
			if json.Unmarshal([]byte(line), &fd) == nil {
				findings = append(findings, fd)
			}
		}
	})
	return findings
}

// Known reports whether finding fid is listed with status "known" (and so is
// excluded by construction and probed separately).
func Known(fid string) bool {
	for _, f := range Findings() {
		if f.ID == fid && f.Status == "known" {
			return true
		}
	}
	return false
}

// ------------------------------------------------------------ rapid runner

// Catch runs f and turns a panic into an error carrying the stack.
func Catch(f func() error) (err error) {
	CleanWork()
	defer CleanWork()
	defer func() {
		if r := recover(); r != nil {
			err = fmt.Errorf("panic: %v\n%s", r, trimStack(debug.Stack()))
		}
	}()
	return f()
}

// Panics reports whether f panicked, with the panic value rendered.
func Panics(f func()) (p bool, val string) {
	defer func() {
		if r := recover(); r != nil {
			p, val = true, fmt.Sprint(r)
		}
	}()
	f()
	return
}

func trimStack(b []byte) string {
	lines := strings.Split(string(b), "\n")
	var out []string
	for _, l := range lines {
		if strings.Contains(l, "github.com/bbva/qed") || strings.Contains(l, "/repo/") || strings.Contains(l, "verif/") {
			out = append(out, strings.TrimSpace(l))
		}
		if len(out) > 24 {
			break
		}
	}
	return strings.Join(out, "\n")
}

// Unsettled is returned by an exec function when a case cannot be judged.
type Unsettled struct{ Why string }

func (u *Unsettled) Error() string { return "inconclusive: " + u.Why }

var inconclusiveOnce sync.Once

// Run drives one unit: draw a plain-data history with rapid, execute it with
// the pure function exec, and on failure save the (shrunk) history as the
// replay file and report the violation. It first replays $VERIF_REPLAY / the
// committed replay files of the unit without rapid.
// timeBound recognises verdicts that rest on a wall-clock bound (liveness
// clauses are decided as "completes within a generous bound").
var timeBound = regexp.MustCompile(`killed by the harness after a timeout|did not converge within|has not returned after|did not complete within|did not return within|no answer within|Client\.Timeout|deadline exceeded|are still arriving|never left it within|no result after|i/o timeout`)

// Saturated reports whether the machine is so overloaded (1-minute load above
// 2.5 x CPUs, i.e. other heavy jobs besides this check's own 16 shards) that a
// wall-clock bound says nothing about the code under test.
func Saturated() (bool, float64) {
	b, err := os.ReadFile("/proc/loadavg")
	if err != nil {
		return false, 0
	}
	var l float64
	fmt.Sscanf(string(b), "%f", &l)
	return l > 2.5*float64(runtime.NumCPU()), l
}

// settle turns a verdict that rests on a time bound into "inconclusive" when
// the machine is saturated: a time budget hit is never a violation by itself.
func settle(err error) error {
	if err == nil {
		return nil
	}
	if _, ok := err.(*Unsettled); ok {
		return err
	}
	if strings.Contains(err.Error(), "bind: address already in use") {
		// another check running at the same time took the port between two uses (port ranges are
		// per worker slot of ONE driver): nothing about the code under test
		return &Unsettled{Why: "a port of this shard was taken by another process: " + err.Error()}
	}
	if timeBound.MatchString(err.Error()) {
		if sat, l := Saturated(); sat {
			return &Unsettled{Why: fmt.Sprintf("a time bound was hit while the machine was saturated (load %.0f on %d CPUs), which decides nothing: %s", l, runtime.NumCPU(), err.Error())}
		}
	}
	return err
}

func Run[H any](t *testing.T, rec *Rec, draw func(*rapid.T) H, exec func(h H, rec *Rec) error) {
	defer rec.Flush()
	var last string
	var lastErr string
	defer func() {
		if t.Failed() && last != "" {
			rec.mu.Lock()
			rec.violations++
			rec.mu.Unlock()
			Violation(rec.ID, last, lastErr)
		}
	}()
	// 1. explicit replay
	var h H
	if ok, err := LoadReplay(rec.Unit, &h); err != nil {
		t.Fatalf("cannot load replay: %v", err)
	} else if ok {
		if err := Catch(func() error { return exec(h, rec) }); err != nil {
			last, lastErr = os.Getenv("VERIF_REPLAY"), err.Error()
			t.Fatalf("replay fails: %v", err)
		}
		return
	} else if os.Getenv("VERIF_REPLAY") != "" {
		t.Skip("replay file belongs to another unit")
	}
	// 2. committed regression replays
	for _, f := range ReplayFiles(rec.ID, rec.Unit) {
		var rp Replay
		b, _ := os.ReadFile(f)
		var hh H
		if json.Unmarshal(b, &rp) != nil || json.Unmarshal(rp.History, &hh) != nil {
			continue
		}
		if err := Catch(func() error { return exec(hh, rec) }); err != nil {
			last, lastErr = f, err.Error()
			t.Fatalf("committed replay %s fails: %v", f, err)
		}
		rec.Count("replays_rerun", 1)
	}
	// 3. generated search
	inflight := os.Getenv("VERIF_INFLIGHT")
	rapid.Check(t, func(rt *rapid.T) {
		h := draw(rt)
		if inflight != "" {
			// the code under test may take the whole process down (fatal
			// error, os.Exit): leave the case where the driver can find it
			hb, _ := json.Marshal(h)
			rp := Replay{Property: rec.ID, Unit: rec.Unit, Error: "the test process died while executing this case", History: hb}
			b, _ := json.Marshal(rp)
			os.WriteFile(inflight, b, 0o644)
		}
		if err := settle(Catch(func() error { return exec(h, rec) })); err != nil {
			if inc, ok := err.(*Unsettled); ok {
				// the case could not be judged for a reason outside this
				// property (resource, time bound, a failure that belongs to
				// another property): never a violation
				rec.Count("inconclusive_cases", 1)
				inconclusiveOnce.Do(func() { Inconclusive(rec.ID, rec.Unit+": "+inc.Why) })
				return
			}
			first := last == ""
			last, lastErr = SaveReplay(rec.ID, rec.Unit, h, err), err.Error()
			if first {
				// shrinking re-runs the case many times and may outlive the shard's wall-clock
				// guard (every re-run of a wedge waits for its bound): leave the unshrunk failure
				// where the driver finds it even then
				msg := strings.ReplaceAll(lastErr, "\n", " | ")
				if len(msg) > 600 {
					msg = msg[:600] + "…"
				}
				keep := last + ".first"
				if b, err := os.ReadFile(last); err == nil {
					os.WriteFile(keep, b, 0o644)
				}
				fmt.Printf("\nVERIF-FIRST-FAILURE property=%s replay=%s msg=%s\n", rec.ID, keep, msg)
			}
			rt.Fatalf("%v", err)
		}
	})
}
