package pbt

import (
	"fmt"
	"os"
	"path/filepath"
	"sync"
	"sync/atomic"
)

// Scratch directories. A RocksDB directory costs ~350 MB of disk while it
// exists (pre-allocated WAL), so every case's directories are removed before
// the next case starts.

var (
	workMu   sync.Mutex
	workDirs []string
	workSeq  int64
)

// WorkDir returns a fresh scratch directory under $VERIF_WORK (or the
// system temp dir); it is removed by the next CleanWork.
func WorkDir(prefix string) string {
	base := os.Getenv("VERIF_WORK")
	if base == "" {
		base = filepath.Join(os.TempDir(), fmt.Sprintf("verif-work-%d", os.Getpid()))
	}
	d := filepath.Join(base, fmt.Sprintf("%s-%d-%d", prefix, os.Getpid(), atomic.AddInt64(&workSeq, 1)))
	os.MkdirAll(d, 0o755)
	workMu.Lock()
	workDirs = append(workDirs, d)
	workMu.Unlock()
	return d
}

// CleanWork removes every scratch directory handed out so far.
func CleanWork() {
	workMu.Lock()
	ds := workDirs
	workDirs = nil
	workMu.Unlock()
	for _, d := range ds {
		os.RemoveAll(d)
	}
	if os.Getenv("VERIF_WORK") == "" {
		os.Remove(filepath.Join(os.TempDir(), fmt.Sprintf("verif-work-%d", os.Getpid())))
	}
}
