package pbt

import (
	"os"
	"runtime"
	"runtime/debug"
	"strconv"
	"strings"
	"sync"
	"time"
)

// Memory regime of the test processes.
//
// balloon.NewBalloon allocates a 1.15 GB BatchCache. Fresh from the OS that
// memory is never touched and costs nothing; once the collector has freed and
// re-used such a span it must be zeroed (page faults at ~7 µs each in this
// sandbox: 2 s per balloon, and far worse with 16 processes). So the harness
// (1) keeps every in-process balloon reachable (Keep) so that its buffer is
// never recycled, (2) turns the automatic pacer off — it paces on accounted
// heap, which those buffers dominate — and (3) collects ordinary garbage
// itself whenever the resident set has grown by 768 MB.

var (
	keepMu sync.Mutex
	kept   []interface{}
)

// Keep pins v for the life of the process.
func Keep(v interface{}) {
	keepMu.Lock()
	kept = append(kept, v)
	keepMu.Unlock()
}

func rssBytes() int64 {
	b, err := os.ReadFile("/proc/self/statm")
	if err != nil {
		return 0
	}
	f := strings.Fields(string(b))
	if len(f) < 2 {
		return 0
	}
	n, _ := strconv.ParseInt(f[1], 10, 64)
	return n * int64(os.Getpagesize())
}

func init() {
	if os.Getenv("VERIF_AUTO_GC") == "1" {
		return
	}
	debug.SetGCPercent(-1)
	go func() {
		base := rssBytes()
		for {
			time.Sleep(50 * time.Millisecond)
			if r := rssBytes(); r > base+768<<20 {
				runtime.GC()
				base = rssBytes()
			}
		}
	}()
}
