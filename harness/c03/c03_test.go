// C03 — consistency proofs verify for every version pair and expose any fork.
package c03

import (
	"fmt"
	"net/http"
	"net/http/httptest"
	"testing"

	"github.com/bbva/qed/api/apihttp"
	"github.com/bbva/qed/balloon"
	"github.com/bbva/qed/balloon/history"
	"github.com/bbva/qed/client"
	"github.com/bbva/qed/crypto/hashing"
	"pgregory.net/rapid"

	"verif/gen"
	"verif/pbt"
	"verif/refmodel"
	"verif/rig"
)

type H struct {
	rig.LogHistory
	Pairs   [][2]uint64 `json:"pairs,omitempty"`
	Subst   []uint64    `json:"subst"`     // drawn versions whose digests are substituted (besides neighbours)
	ForkAt  []uint64    `json:"fork_at"`   // drawn fork points (besides 0, i, i+1, j)
	ForkAlt string      `json:"fork_alt"`  // digest placed at the fork point
	Rejoin  bool        `json:"rejoin"`    // forked log differs only at the fork point
	HTTP    bool        `json:"http"`
}

const rule = "rapid-drawn logs; for every pair i<=j (all pairs when n<=64, boundary+drawn above) the returned proof must verify against snapshots i and j (object, JSON wire form, sample over real HTTP); it must be rejected with (a) the start/end digest replaced by another version's (neighbours + drawn versions), (b) digests of forked logs sharing events[:p] for p in {0,i,i+1,j,drawn}, diverging for good or only at p, (c) Start/End altered to +-1, swapped, 0, j+1, 2^63-1, (d) each audit-path entry bit-flipped, dropped, or replaced by another entry's value; out-of-range requests must error. Non-trivial: the case verified a pair with i<j and j>=2. distinct = FNV-64 of the history."

func TestConsistency(t *testing.T) {
	rec := pbt.NewRec("C03", "TestConsistency", rule,
		"a panic of the verifier counts as 'not accepted' here (it is C12's violation)",
		"SHA-256 collisions are out of scope")
	maxN := pbt.Scale(64, 2048)
	pbt.Run(t, rec, func(rt *rapid.T) H {
		h := H{LogHistory: rig.DrawLog(rt, maxN, rapid.IntRange(0, 4).Draw(rt, "distinct") != 0, false)}
		n := len(h.Digests)
		if n > pbt.Scale(40, 128) {
			h.Pairs, _ = gen.VersionPairs(rt, n, 0, pbt.Scale(120, 400))
		}
		for i := 0; i < 3; i++ {
			h.Subst = append(h.Subst, uint64(rapid.IntRange(0, n-1).Draw(rt, "subst")))
			h.ForkAt = append(h.ForkAt, uint64(rapid.IntRange(0, n-1).Draw(rt, "fork")))
		}
		alt := rapid.SliceOfN(rapid.Byte(), 32, 32).Draw(rt, "alt")
		var a refmodel.D
		copy(a[:], alt)
		h.ForkAlt = gen.Hex(a)
		h.Rejoin = rapid.Bool().Draw(rt, "rejoin")
		h.HTTP = rapid.IntRange(0, 5).Draw(rt, "http") == 0
		return h
	}, exec)
}

// accepts runs the verifier, mapping a panic to "not accepted".
func accepts(f func() bool) (ok bool) {
	defer func() {
		if recover() != nil {
			ok = false
		}
	}()
	return f()
}

func snapH(d []byte) *balloon.Snapshot { return &balloon.Snapshot{HistoryDigest: d} }

func exec(h H, rec *pbt.Rec) error {
	b, m, err := h.Build(false)
	if err != nil {
		return err
	}
	ds := h.Ds()
	n := len(ds)
	alt := gen.UnHex(h.ForkAlt)

	// forked logs: digests of a log that shares events[:p] and diverges at p
	forkCache := map[uint64][]refmodel.D{}
	forked := func(p uint64) []refmodel.D {
		if r, ok := forkCache[p]; ok {
			return r
		}
		t := refmodel.NewHistory()
		out := make([]refmodel.D, n)
		for v := 0; v < n; v++ {
			d := ds[v]
			if uint64(v) == p || (!h.Rejoin && uint64(v) > p) {
				d = alt
				if uint64(v) > p { // keep diverged events distinct from each other
					d[0] ^= byte(v)
					d[1] ^= byte(v >> 8)
				}
				if d == ds[v] {
					d[31] ^= 1
				}
			}
			out[v] = t.Append(d)
		}
		forkCache[p] = out
		return out
	}

	var pairs [][2]uint64
	if h.Pairs != nil {
		pairs = h.Pairs
	} else {
		for i := 0; i < n; i++ {
			for j := i; j < n; j++ {
				pairs = append(pairs, [2]uint64{uint64(i), uint64(j)})
			}
		}
		rec.Class("all-pairs", 1)
	}
	var verified, rejected, nt int64
	// answers handed out earlier must keep verifying however many queries follow
	type heldProof struct {
		p    *balloon.IncrementalProof
		i, j uint64
	}
	var held []heldProof
	for pi, pr := range pairs {
		i, j := pr[0], pr[1]
		if j >= uint64(n) || i > j {
			continue
		}
		p, err := b.Bal.QueryConsistency(i, j)
		if err != nil {
			return fmt.Errorf("consistency(%d,%d) on a log of %d events: %v", i, j, n, err)
		}
		if p.Start != i || p.End != j {
			return fmt.Errorf("consistency(%d,%d): proof names (%d,%d)", i, j, p.Start, p.End)
		}
		if !p.Verify(b.Snaps[i], b.Snaps[j]) {
			return fmt.Errorf("consistency(%d,%d): genuine proof rejected", i, j)
		}
		if pi%4 == 0 {
			wp, _, err := rig.WireIncremental(p)
			if err != nil {
				return err
			}
			if !wp.Verify(b.Snaps[i], b.Snaps[j]) {
				return fmt.Errorf("consistency(%d,%d): verifies as an object but not after the JSON wire form", i, j)
			}
		}
		verified++
		if i < j && j >= 2 {
			nt++
		}
		if len(held) < 80 && (pi%3 == 0 || len(pairs) < 40) {
			held = append(held, heldProof{p, i, j})
		}
		// (a) other versions' digests
		cand := map[uint64]bool{}
		for _, k := range append([]uint64{i - 1, i + 1, j - 1, j + 1, 0, uint64(n - 1)}, h.Subst...) {
			if k < uint64(n) {
				cand[k] = true
			}
		}
		for k := range cand {
			if k != i && string(b.Snaps[k].HistoryDigest) != string(b.Snaps[i].HistoryDigest) {
				if accepts(func() bool { return p.Verify(b.Snaps[k], b.Snaps[j]) }) {
					return fmt.Errorf("consistency(%d,%d): accepted with the start digest replaced by version %d's", i, j, k)
				}
				rejected++
			}
			if k != j {
				if accepts(func() bool { return p.Verify(b.Snaps[i], b.Snaps[k]) }) {
					return fmt.Errorf("consistency(%d,%d): accepted with the end digest replaced by version %d's", i, j, k)
				}
				rejected++
			}
		}
		// (b) forks
		fps := map[uint64]bool{0: true, i: true, j: true}
		if i+1 <= j {
			fps[i+1] = true
		}
		for _, f := range h.ForkAt {
			if f <= j {
				fps[f] = true
			}
		}
		for fp := range fps {
			fd := forked(fp)
			if fp <= i {
				if accepts(func() bool { return p.Verify(snapH(fd[i][:]), b.Snaps[j]) }) {
					return fmt.Errorf("consistency(%d,%d): accepted with the start digest of a log forked at %d", i, j, fp)
				}
				if accepts(func() bool { return p.Verify(snapH(fd[i][:]), snapH(fd[j][:])) }) {
					return fmt.Errorf("consistency(%d,%d): genuine proof accepted against both digests of a log forked at %d", i, j, fp)
				}
				rejected += 2
			}
			if accepts(func() bool { return p.Verify(b.Snaps[i], snapH(fd[j][:])) }) {
				return fmt.Errorf("consistency(%d,%d): accepted with the end digest of a log forked at %d (rejoin=%v)", i, j, fp, h.Rejoin)
			}
			rejected++
		}
		// (c) altered versions
		type se struct{ s, e uint64 }
		for _, a := range []se{{i + 1, j}, {i - 1, j}, {i, j + 1}, {i, j - 1}, {j, i}, {0, j}, {i, 0}, {j + 1, j + 1}, {1<<63 - 1, j}, {i, 1<<63 - 1}} {
			if a.s == i && a.e == j {
				continue
			}
			q := balloon.NewIncrementalProof(a.s, a.e, p.AuditPath, hashing.NewSha256Hasher())
			if accepts(func() bool { return q.Verify(b.Snaps[i], b.Snaps[j]) }) {
				return fmt.Errorf("consistency(%d,%d): accepted with versions altered to (%d,%d)", i, j, a.s, a.e)
			}
			rejected++
		}
		// (d) single-entry alterations (bounded per pair on long paths)
		if pi%3 == 0 || len(pairs) < 200 {
			keys := sortedKeys(p.AuditPath)
			for ki, k := range keys {
				orig := p.AuditPath[k]
				mut := func(ap history.AuditPath, what string) error {
					q := balloon.NewIncrementalProof(i, j, ap, hashing.NewSha256Hasher())
					if accepts(func() bool { return q.Verify(b.Snaps[i], b.Snaps[j]) }) {
						return fmt.Errorf("consistency(%d,%d): accepted with audit-path entry %d|%d %s", i, j, be64(k[:8]), int(k[8])<<8|int(k[9]), what)
					}
					rejected++
					return nil
				}
				ap := clone(p.AuditPath)
				fl := append([]byte{}, orig...)
				fl[(ki*7)%len(fl)] ^= 1 << uint(ki%8)
				ap[k] = fl
				if err := mut(ap, "bit-flipped"); err != nil {
					return err
				}
				ap = clone(p.AuditPath)
				delete(ap, k)
				if err := mut(ap, "dropped"); err != nil {
					return err
				}
				if len(keys) > 1 {
					other := p.AuditPath[keys[(ki+1)%len(keys)]]
					if string(other) != string(orig) {
						ap = clone(p.AuditPath)
						ap[k] = other
						if err := mut(ap, "replaced by another entry's value"); err != nil {
							return err
						}
					}
				}
			}
		}
	}
	for _, hp := range held {
		if !hp.p.Verify(b.Snaps[hp.i], b.Snaps[hp.j]) {
			return fmt.Errorf("consistency(%d,%d): the proof verified when it was returned, but no longer verifies against the same snapshots after later queries: an answer changed after it was handed out", hp.i, hp.j)
		}
	}
	rec.Count("held_proofs_reverified", int64(len(held)))
	// several auditors asking at once: each must get a proof for its own pair that verifies
	if len(held) >= 2 {
		const workers = 4
		errs := make(chan error, workers)
		for w := 0; w < workers; w++ {
			go func(w int) {
				for k := 0; k < 3*len(held); k++ {
					hp := held[(k*workers+w)%len(held)]
					p, err := b.Bal.QueryConsistency(hp.i, hp.j)
					if err != nil {
						errs <- fmt.Errorf("consistency(%d,%d) asked while other consistency queries run: %v", hp.i, hp.j, err)
						return
					}
					if p.Start != hp.i || p.End != hp.j || !p.Verify(b.Snaps[hp.i], b.Snaps[hp.j]) {
						errs <- fmt.Errorf("consistency(%d,%d) asked while other consistency queries run: the genuine proof is rejected (names (%d,%d))", hp.i, hp.j, p.Start, p.End)
						return
					}
				}
				errs <- nil
			}(w)
		}
		var first error
		for w := 0; w < workers; w++ {
			if err := <-errs; err != nil && first == nil {
				first = err
			}
		}
		if first != nil {
			return first
		}
		rec.Count("concurrent_pairs_verified", int64(workers*3*len(held)))
	}
	// out-of-range requests
	for _, a := range [][2]uint64{{0, uint64(n)}, {uint64(n), uint64(n)}, {uint64(n - 1), uint64(n) + 5}, {1, 0}, {uint64(n), 0}, {0, 1<<64 - 1}} {
		if a[0] <= a[1] && a[1] < uint64(n) {
			continue
		}
		var qerr error
		if p, _ := pbt.Panics(func() { _, qerr = b.Bal.QueryConsistency(a[0], a[1]) }); p || qerr == nil {
			return fmt.Errorf("consistency(%d,%d) on a log of %d events did not return an error (panic=%v)", a[0], a[1], n, p)
		}
	}
	if h.HTTP {
		if err := viaHTTP(b, n, rec); err != nil {
			return err
		}
	}
	_ = m
	cls := h.Classes()
	if h.Rejoin {
		cls = append(cls, "fork-rejoins")
	} else {
		cls = append(cls, "fork-diverges")
	}
	if h.HTTP {
		cls = append(cls, "http")
	}
	rec.Case(h, nt > 0, cls...)
	rec.Count("pairs_verified", verified)
	rec.Count("alterations_rejected", rejected)
	rec.Sample(n, h)
	return nil
}

func viaHTTP(b *rig.B, n int, rec *pbt.Rec) error {
	srv := httptest.NewServer(apihttp.NewApiHttp(&rig.API{B: b}))
	defer srv.Close()
	c, err := client.NewSimpleHTTPClient(&http.Client{}, []string{srv.URL}, srv.URL)
	if err != nil {
		return err
	}
	defer c.Close()
	step := 1
	if n > 8 {
		step = n / 8
	}
	for i := 0; i < n; i += step {
		for j := i; j < n; j += step {
			p, err := c.Incremental(uint64(i), uint64(j))
			if err != nil {
				return fmt.Errorf("HTTP incremental(%d,%d): %v", i, j, err)
			}
			ok, err := c.IncrementalVerify(p, b.Snaps[i], b.Snaps[j])
			if err != nil || !ok {
				return fmt.Errorf("HTTP incremental(%d,%d): client verifier rejects", i, j)
			}
			rec.Count("http_pairs_verified", 1)
		}
	}
	return nil
}

func clone(ap history.AuditPath) history.AuditPath {
	out := make(history.AuditPath, len(ap))
	for k, v := range ap {
		out[k] = v
	}
	return out
}

func be64(b []byte) uint64 {
	var x uint64
	for _, c := range b {
		x = x<<8 | uint64(c)
	}
	return x
}

func sortedKeys(ap history.AuditPath) [][10]byte {
	keys := make([][10]byte, 0, len(ap))
	for k := range ap {
		keys = append(keys, k)
	}
	for i := 1; i < len(keys); i++ {
		for j := i; j > 0 && string(keys[j][:]) < string(keys[j-1][:]); j-- {
			keys[j], keys[j-1] = keys[j-1], keys[j]
		}
	}
	return keys
}
