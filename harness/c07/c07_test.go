// C07 — any crash recovers to a prefix of the committed log, each entry
// applied once (fault enumeration: every crash point of each workload).
package c07

import (
	"fmt"
	"testing"

	"pgregory.net/rapid"

	"verif/pbt"
	"verif/rig"
)

type H struct {
	Workload []rig.Step `json:"workload"` // add / snapshot steps
	Tail     []rig.Step `json:"tail"`     // three more adds after recovery
}

const rule = "rapid-drawn workloads of 1-8 applies (single or bulk up to 5, optional forced raft snapshot + log compaction in between) on a single-node RaftNode over RocksDB in an executor child; a crash-free run counts the store writes W of the workload; then for EVERY store write k=1..W and both positions {just before, just after it} one run SIGKILLs the child exactly there (faulty store wrapper around the real RocksDBStore), restarts it on the same directories, lets it replay its log, runs the rest of the workload and three more inserts. Oracle: after restart the node reaches exactly (acknowledged + in-flight) events (never less, never more, never a partial bulk); every later acknowledged snapshot equals the reference model's for that exact sequence (a double apply would shift versions); sampled membership proofs of all events and consistency proofs verify against the snapshots issued before the crash. evaluations = crash runs; exhaustive per workload. Non-trivial: crash point strictly inside the workload (k>=2) or crashed apply is a bulk>=2; distinct = FNV-64 of (workload, k, position)."

func TestCrashPoints(t *testing.T) {
	rec := pbt.NewRec("C07", "TestCrashPoints", rule,
		"SIGKILL preserves the OS page cache: torn / lost un-synced writes (power loss) are not simulated",
		"a crash inside RocksDBStore.Mutate itself cannot be placed deterministically")
	pbt.Run(t, rec, func(rt *rapid.T) H {
		m := rapid.IntRange(1, pbt.Scale(4, 8)).Draw(rt, "applies")
		adds := rig.DrawAdds(rt, m, 5, "w")
		var h H
		for i, a := range adds {
			h.Workload = append(h.Workload, a)
			if i < m-1 && rapid.IntRange(0, 4).Draw(rt, "snapshot") == 0 {
				h.Workload = append(h.Workload, rig.Step{Op: "snapshot"})
			}
		}
		h.Tail = rig.DrawAdds(rt, 3, 3, "t")
		return h
	}, exec)
}

func exec(h H, rec *pbt.Rec) error {
	wh := pbt.Hash(h)
	// crash-free run first: it tells how many store writes (crash points) the workload has
	writes, _, _, err := rig.CrashRun(h.Workload, nil, 0, "", 6)
	if err != nil {
		return err
	}
	if writes == 0 {
		return &pbt.Unsettled{Why: "workload performed no store write"}
	}
	applies := 0
	for _, s := range h.Workload {
		if s.Op == "add" {
			applies++
		}
	}
	for k := 1; k <= writes; k++ {
		for _, pos := range []string{"before", "after"} {
			_, crashed, q, err := rig.CrashRun(h.Workload, h.Tail, k, pos, 8)
			rec.CaseHash(wh^uint64(k*2+len(pos))*1099511628211, k >= 2 || len(h.Workload[0].Events) >= 2)
			rec.Class("crash-"+pos, 1)
			rec.Count("proofs_verified", int64(q))
			if crashed {
				rec.Count("crash_points_reached", 1)
			}
			if err != nil {
				return err
			}
			if !crashed {
				return &pbt.Unsettled{Why: fmt.Sprintf("crash point %s write %d of %d was not reached", pos, k, writes)}
			}
		}
	}
	rec.Exhaustive(true)
	rec.Count("workloads", 1)
	rec.Count("store_writes", int64(writes))
	rec.Count("applies", int64(applies))
	rec.Sample(len(h.Workload), h)
	return nil
}
