// C07 — any crash recovers to a prefix of the committed log, each entry
// applied once (fault enumeration: every crash point of each workload).
package c07

import (
	"fmt"
	"testing"

	"pgregory.net/rapid"

	"verif/pbt"
	"verif/rig"
)

type H struct {
	Workload []rig.Step `json:"workload"` // add / snapshot steps
	Tail     []rig.Step `json:"tail"`     // three more adds after recovery
}

const rule = "rapid-drawn workloads of 1-8 applies (single or bulk up to 5, optional forced raft snapshot + log compaction in between) on a single-node RaftNode over RocksDB in an executor child; for EVERY apply k and both positions {just before, just after the store write} one run SIGKILLs the child exactly there (faulty store wrapper around the real RocksDBStore), restarts it on the same directories, lets it replay its log, runs the rest of the workload and three more inserts. Oracle: after restart the node reaches exactly (acknowledged + in-flight) events (never less, never more, never a partial bulk); every later acknowledged snapshot equals the reference model's for that exact sequence (a double apply would shift versions); sampled membership proofs of all events and consistency proofs verify against the snapshots issued before the crash. evaluations = crash runs; exhaustive per workload. Non-trivial: crash point strictly inside the workload (k>=2) or crashed apply is a bulk>=2; distinct = FNV-64 of (workload, k, position)."

func TestCrashPoints(t *testing.T) {
	rec := pbt.NewRec("C07", "TestCrashPoints", rule,
		"SIGKILL preserves the OS page cache: torn / lost un-synced writes (power loss) are not simulated",
		"a crash inside RocksDBStore.Mutate itself cannot be placed deterministically")
	pbt.Run(t, rec, func(rt *rapid.T) H {
		m := rapid.IntRange(1, pbt.Scale(4, 8)).Draw(rt, "applies")
		adds := rig.DrawAdds(rt, m, 5, "w")
		var h H
		for i, a := range adds {
			h.Workload = append(h.Workload, a)
			if i < m-1 && rapid.IntRange(0, 4).Draw(rt, "snapshot") == 0 {
				h.Workload = append(h.Workload, rig.Step{Op: "snapshot"})
			}
		}
		h.Tail = rig.DrawAdds(rt, 3, 3, "t")
		return h
	}, exec)
}

func exec(h H, rec *pbt.Rec) error {
	wh := pbt.Hash(h)
	k := 0
	for i, s := range h.Workload {
		if s.Op != "add" {
			continue
		}
		k++
		for _, pos := range []string{"before", "after"} {
			var steps []rig.Step
			steps = append(steps, h.Workload[:i]...)
			steps = append(steps, rig.Step{Op: "crash", Events: s.Events, Single: s.Single, Pos: pos})
			steps = append(steps, h.Workload[i+1:]...)
			steps = append(steps, h.Tail...)
			st, _, err := rig.RunNodeHistory(rig.NodeHistory{Steps: steps}, rig.Oracle{RefDigests: true, Proofs: true, Recovery: true, Limit: 8}, "nodeexec")
			nt := k >= 2 || len(s.Events) >= 2
			rec.CaseHash(wh^uint64(k*2+len(pos))*1099511628211, nt)
			rec.Class("crash-"+pos, 1)
			if st != nil {
				rec.Count("proofs_verified", int64(st.Queries))
				rec.Count("crash_points_reached", int64(st.Crashes))
			}
			if err != nil {
				if u, ok := err.(*pbt.Unsettled); ok {
					return u
				}
				return fmt.Errorf("crash %s the store write of apply %d (bulk of %d): %v", pos, k, len(s.Events), err)
			}
		}
	}
	rec.Exhaustive(true)
	rec.Count("workloads", 1)
	rec.Sample(len(h.Workload), h)
	return nil
}
