package c07

import (
	"bufio"
	"fmt"
	"os"
	"strings"
	"testing"
	"time"

	"pgregory.net/rapid"

	"verif/pbt"
	"verif/refmodel"
	"verif/rig"
	"verif/xp"
)

type KH struct {
	Bulks   [][]string `json:"bulks"`    // the stream of insertions
	DelayMs int        `json:"delay_ms"` // SIGKILL this long after the stream started
	// AfterFirst: count the delay from the moment the first insertion (the big bulk) has been
	// acknowledged, so that the crash hits a node that already holds a big tree
	AfterFirst bool       `json:"after_first,omitempty"`
	Tail       []rig.Step `json:"tail"`
	// DuringWrite > 0: instead of the parent's kill, the node kills itself DuringUs microseconds
	// after its DuringWrite-th store write entered RocksDB
	DuringWrite int `json:"during_write,omitempty"`
	DuringUs    int `json:"during_us,omitempty"`
}

const ruleKill = "wall-clock crash class: a single-node RaftNode (executor child) runs a background stream of 10-60 insertions (single or bulk up to 4; one stream in two starts with a bulk of 1100-1600 events, and is killed 0-2500 ms after the start or 0-300 ms after that bulk was acknowledged), journalling 'sent i' / 'acked i at version v' to an append-only file; the parent SIGKILLs the child after a drawn delay (0-300 ms) - or, one case in two, the node SIGKILLs itself a drawn 0-60000 us after its k-th store write entered RocksDB (aimed inside the write; k=1 is the big bulk) - restarts the node on the same directories and lets it replay. Oracle (independent of where the kill landed): the recovered version V satisfies acknowledged <= V <= acknowledged + the one insertion in flight; V is a whole number of insertions (no partial bulk); the first V events of the stream are exactly the log (membership of each at its own version verifies against the reference model's digests, the next stream event is unknown); three more insertions are acknowledged with the reference digests. evaluations = kills. Non-trivial: the kill landed while the stream was running (some but not all insertions acknowledged). distinct = FNV-64 of the case (+ observed landing point)."

func TestKillAnytime(t *testing.T) {
	rec := pbt.NewRec("C07", "TestKillAnytime", ruleKill, "SIGKILL keeps the page cache: no torn writes")
	pbt.Run(t, rec, func(rt *rapid.T) KH {
		var h KH
		seq := 0
		// one workload in two starts with a bulk above the 1000-entry page with which a
		// restarted node re-reads its recovery tiles: recovery then runs on a big tree
		big := 0
		if rapid.Bool().Draw(rt, "big") {
			big = rapid.SampledFrom([]int{1100, 1300, 1600}).Draw(rt, "big-n")
			var b []string
			for j := 0; j < big; j++ {
				b = append(b, fmt.Sprintf("k-%d", seq))
				seq++
			}
			h.Bulks = append(h.Bulks, b)
		}
		for i, n := 0, rapid.IntRange(10, 60).Draw(rt, "n"); i < n; i++ {
			var b []string
			for j, k := 0, rapid.SampledFrom([]int{1, 1, 2, 4}).Draw(rt, "bulk"); j < k; j++ {
				b = append(b, fmt.Sprintf("k-%d", seq))
				seq++
			}
			h.Bulks = append(h.Bulks, b)
		}
		h.DelayMs = rapid.IntRange(0, 300).Draw(rt, "delay")
		if big > 0 {
			if h.AfterFirst = rapid.IntRange(0, 2).Draw(rt, "after-first") != 0; !h.AfterFirst {
				h.DelayMs = rapid.IntRange(0, 2500).Draw(rt, "delay-big")
			}
		}
		h.Tail = rig.DrawAdds(rt, 3, 3, "kt")
		// one case in two aims the kill INSIDE a store write: the node kills itself a drawn
		// number of microseconds after its k-th write entered RocksDB (k=1 is the big bulk)
		if rapid.Bool().Draw(rt, "during-write") {
			if big > 0 {
				h.DuringWrite = 1
				h.DuringUs = rapid.IntRange(0, 60000).Draw(rt, "during-us-big")
			} else {
				h.DuringWrite = rapid.IntRange(1, 8).Draw(rt, "during-k")
				h.DuringUs = rapid.IntRange(0, 3000).Draw(rt, "during-us")
			}
		}
		return h
	}, execKill)
}

func execKill(h KH, rec *pbt.Rec) error {
	un := func(f string, a ...interface{}) error { return &pbt.Unsettled{Why: fmt.Sprintf(f, a...)} }
	dir := rig.WorkDir("c07k")
	x, err := rig.StartExec("nodeexec")
	if err != nil {
		return un("executor: %v", err)
	}
	defer func() {
		if x != nil {
			x.Kill()
		}
	}()
	opts := xp.NodeOpts{Dir: dir, Bootstrap: true, TimeoutMs: 150, SnapshotThreshold: 1 << 30}
	first := opts
	if h.DuringWrite > 0 {
		first.Plan = xp.Plan{KillDuring: h.DuringWrite, KillDelayUs: h.DuringUs}
	}
	n, err := rig.OpenNode(x, "n", first)
	if err != nil {
		return un("open: %v", err)
	}
	if err := n.WaitLeader(20 * time.Second); err != nil {
		return un("%v", err)
	}
	var chunks [][]byte
	for _, b := range h.Bulks {
		chunks = append(chunks, []byte(strings.Join(b, "\n")))
	}
	journal := dir + "/journal"
	if _, err := x.Call(&xp.Req{Op: "node-stream", Name: "n", Path: journal, Chunks: chunks}, 10*time.Second); err != nil {
		// a kill aimed at an early write can land before the stream command is answered
		if d, ok := err.(*rig.Death); !(ok && h.DuringWrite > 0 && d.Signal == "killed") {
			return un("stream: %v", err)
		}
	}
	if h.DuringWrite > 0 {
		// the node kills itself inside its k-th store write; wait for that (the stream may be too short to reach it)
		for i := 0; i < 1500; i++ {
			if _, err := x.Call(&xp.Req{Op: "ping"}, 5*time.Second); err != nil {
				rec.Class("kill-inside-store-write", 1)
				break
			}
			time.Sleep(20 * time.Millisecond)
		}
	} else if h.AfterFirst {
		for i := 0; i < 3000; i++ {
			if b, err := os.ReadFile(journal); err == nil && strings.Contains(string(b), "A 0 ") {
				break
			}
			time.Sleep(20 * time.Millisecond)
		}
	}
	if h.DuringWrite == 0 {
		time.Sleep(time.Duration(h.DelayMs) * time.Millisecond)
	}
	x.Kill()
	x = nil
	// what the client saw
	acked, sent := 0, 0
	if f, err := os.Open(journal); err == nil {
		sc := bufio.NewScanner(f)
		for sc.Scan() {
			var i, v int
			if _, err := fmt.Sscanf(sc.Text(), "A %d %d", &i, &v); err == nil {
				acked = i + 1
			} else if _, err := fmt.Sscanf(sc.Text(), "S %d", &i); err == nil {
				sent = i + 1
			}
		}
		f.Close()
	}
	events := func(k int) (out []string) {
		for _, b := range h.Bulks[:k] {
			out = append(out, b...)
		}
		return
	}
	// restart, let the log replay, wait for the version to settle
	x, err = rig.StartExec("nodeexec")
	if err != nil {
		return un("executor: %v", err)
	}
	n, err = rig.OpenNode(x, "n", opts)
	if err != nil {
		return fmt.Errorf("after SIGKILL %d ms into the stream (acknowledged %d, sent %d insertions) the node cannot be restarted: %v", h.DelayMs, acked, sent, err)
	}
	if err := n.WaitLeader(20 * time.Second); err != nil {
		return un("%v", err)
	}
	var v uint64
	stable := 0
	for i := 0; i < 400 && stable < 15; i++ {
		st, err := n.State()
		if err != nil {
			return fmt.Errorf("the node died while replaying its log after the SIGKILL: %v", err)
		}
		if st.BalloonVersion == v && (v == 0 || st.StateVersion == v-1) {
			stable++
		} else {
			v, stable = st.BalloonVersion, 0
		}
		time.Sleep(20 * time.Millisecond)
	}
	tag := fmt.Sprintf("SIGKILL %d ms into a stream of %d insertions (journal: %d acknowledged, %d sent)", h.DelayMs, len(h.Bulks), acked, sent)
	if h.DuringWrite > 0 {
		tag = fmt.Sprintf("SIGKILL %d us after store write %d of a stream of %d insertions entered RocksDB (journal: %d acknowledged, %d sent)", h.DuringUs, h.DuringWrite, len(h.Bulks), acked, sent)
	}
	lo := len(events(acked))
	hi := lo
	if sent > acked {
		hi = len(events(sent))
	}
	// whole insertions only
	k := -1
	for i := acked; i <= sent && i <= len(h.Bulks); i++ {
		if uint64(len(events(i))) == v {
			k = i
		}
	}
	if v < uint64(lo) {
		return fmt.Errorf("%s: after restart the log holds %d events, fewer than the %d acknowledged to the client", tag, v, lo)
	}
	if v > uint64(hi) {
		return fmt.Errorf("%s: after restart the log holds %d events, more than acknowledged plus the one insertion in flight (%d)", tag, v, hi)
	}
	if k < 0 {
		return fmt.Errorf("%s: after restart the log holds %d events, which is not a whole number of insertions (acknowledged prefix %d events, with the in-flight insertion %d)", tag, v, lo, hi)
	}
	m := refmodel.NewLog()
	for _, b := range h.Bulks[:k] {
		var ds []refmodel.D
		for _, e := range b {
			ds = append(ds, refmodel.EventDigest([]byte(e)))
		}
		m.AddBulk(ds)
	}
	q, err := rig.CheckNode(n, m, 20)
	rec.Count("proofs_verified", int64(q))
	if err != nil {
		return fmt.Errorf("%s, after restart at version %d: %v", tag, v, err)
	}
	if k < len(h.Bulks) {
		d := refmodel.EventDigest([]byte(h.Bulks[k][0]))
		as, err := n.Query([]xp.Query{{Kind: "member-latest", Digest: d[:]}})
		if err == nil && len(as) == 1 && as[0].Err == "" && as[0].Panic == "" {
			if mr, _, err := rig.DecodeMember(as[0]); err == nil && mr.Exists {
				return fmt.Errorf("%s: the restarted log of %d events also knows the next event of the stream", tag, v)
			}
		}
	}
	for _, s := range h.Tail {
		var evs [][]byte
		var ds []refmodel.D
		for _, e := range s.Events {
			evs = append(evs, []byte(e))
			ds = append(ds, refmodel.EventDigest([]byte(e)))
		}
		res, err := n.Add(evs, false)
		if err != nil {
			return fmt.Errorf("%s: the restarted node died on the next insertion: %v", tag, err)
		}
		if res.Err != "" {
			return un("add after restart: %s", res.Err)
		}
		if err := rig.CheckAck(res.Snaps, m.AddBulk(ds)); err != nil {
			return fmt.Errorf("%s: insertion after restart: %v", tag, err)
		}
	}
	n.Close(true)
	x.Exit()
	x = nil
	rec.Case([]interface{}{h, acked, sent}, acked > 0 && acked < len(h.Bulks))
	if sent > acked {
		rec.Class("kill-with-insertion-in-flight", 1)
	}
	if v > 1000 {
		rec.Class("recovered-log-above-1000-events", 1)
	}
	rec.Sample(len(h.Bulks), map[string]interface{}{"bulks": len(h.Bulks), "delay_ms": h.DelayMs, "acked": acked, "sent": sent, "recovered_events": v})
	return nil
}
