// C09 — a follower restored by state transfer converges to the leader's
// state.
package c09

import (
	"fmt"
	"sort"
	"testing"
	"time"

	"pgregory.net/rapid"

	"verif/pbt"
	"verif/rig"
	"verif/xp"
)

type H struct {
	Before   [][]string `json:"before"`    // insertions with all three nodes up
	Down     int        `json:"down"`      // which follower goes down
	While    [][]string `json:"while"`     // insertions while it is down
	NewNode  bool       `json:"new_node"`  // bring a brand-new node instead of the returning one
	Both     bool       `json:"both"`      // ... or both
	After    [][]string `json:"after"`     // insertions after the transfer
	Transfer bool       `json:"transfer"`  // move leadership before the later insertions
	Restart  bool       `json:"restart_x"` // restart the restored node afterwards (restored state must also be durable)
	Crash    bool       `json:"crash_all"` // SIGKILL the process holding all replicas after the transfer and restart them (transferred state must be durable)
}

const rule = "a 3-node cluster (one executor child) with log compaction forced: insertions, a follower X goes down (Close) at a drawn point, more insertions, a raft snapshot is forced on every remaining node with TrailingLogs=0 (the entries X misses are gone from the leader's log), then X restarts and/or a brand-new node joins: both must be brought up to date by state transfer (InstallSnapshot -> FSM.Restore -> WAL shipping from the leader). After quiescence (<=60 s) C06's oracle runs on every replica (same applied state, byte-identical tables, proofs verifying against the snapshots the leaders returned); then MORE insertions are made (optionally after a leadership transfer, optionally after restarting the restored node, optionally after a SIGKILL of all replicas and their restart) and the oracle runs again, because stale in-memory structures only show on later inserts and queries. Non-trivial: compaction really removed entries the returning/new node needed (its next index < leader's first log index) and >=1 insertion follows the transfer. distinct = FNV-64 of the history."

func drawAdds(rt *rapid.T, label string, min, max int, seq *int) [][]string {
	var out [][]string
	for i, n := 0, rapid.IntRange(min, max).Draw(rt, label); i < n; i++ {
		var b []string
		for j, k := 0, rapid.IntRange(1, 5).Draw(rt, label+"-bulk"); j < k; j++ {
			b = append(b, fmt.Sprintf("t-%d", *seq))
			*seq++
		}
		out = append(out, b)
	}
	return out
}

func TestStateTransfer(t *testing.T) {
	rec := pbt.NewRec("C09", "TestStateTransfer", rule, "no network faults; WAL shipping relies on RocksDB's GetUpdatesSince")
	pbt.Run(t, rec, func(rt *rapid.T) H {
		var h H
		seq := 0
		h.Before = drawAdds(rt, "before", 0, 4, &seq)
		h.Down = rapid.IntRange(0, 1).Draw(rt, "down")
		h.While = drawAdds(rt, "while", 1, 5, &seq)
		if rapid.Bool().Draw(rt, "first-missed-single") {
			h.While[0] = h.While[0][:1]
		}
		switch rapid.IntRange(0, 3).Draw(rt, "who") {
		case 0:
			h.NewNode = true
		case 1:
			h.Both = true
		}
		h.After = drawAdds(rt, "after", 1, 4, &seq)
		h.Transfer = rapid.IntRange(0, 2).Draw(rt, "transfer") == 0
		h.Restart = rapid.IntRange(0, 3).Draw(rt, "restart") == 0
		h.Crash = rapid.IntRange(0, 2).Draw(rt, "crash") == 0
		return h
	}, exec)
}

func unsettled(f string, a ...interface{}) error { return &pbt.Unsettled{Why: fmt.Sprintf(f, a...)} }

func exec(h H, rec *pbt.Rec) error {
	x, err := rig.StartExec("nodeexec")
	if err != nil {
		return unsettled("executor: %v", err)
	}
	c, err := rig.NewCluster(x, 3, xp.NodeOpts{TimeoutMs: 300, SnapshotThreshold: 1 << 30, TrailingLogs: 0})
	if err != nil {
		x.Kill()
		return unsettled("cluster boot: %v", err)
	}
	defer func() { c.X.Kill() }()
	dead := func(err error) bool { _, ok := err.(*rig.Death); return ok }
	add := func(bs [][]string, phase string) error {
		for _, b := range bs {
			if _, err := c.Add(b, false); err != nil {
				if dead(err) {
					return fmt.Errorf("%s: the process holding the replicas died: %v", phase, err)
				}
				return unsettled("%s add: %v", phase, err)
			}
		}
		return nil
	}
	check := func(when string) error {
		if _, err := c.Quiesce(60 * time.Second); err != nil {
			return fmt.Errorf("%s: %v", when, err)
		}
		k, err := c.CheckReplicas(10)
		rec.Count("proofs_verified", int64(k))
		if err != nil {
			return fmt.Errorf("%s: %v", when, err)
		}
		return nil
	}
	if err := add(h.Before, "before"); err != nil {
		return err
	}
	if _, err := c.Quiesce(60 * time.Second); err != nil {
		return unsettled("initial quiescence: %v", err)
	}
	l, err := c.Leader("", 20*time.Second)
	if err != nil {
		return unsettled("%v", err)
	}
	var fs []string
	for nm := range c.Live {
		if nm != l.Name {
			fs = append(fs, nm)
		}
	}
	sort.Strings(fs)
	xname := fs[h.Down%len(fs)]
	xst, _ := c.Live[xname].State()
	if err := c.Stop(xname); err != nil {
		return unsettled("stop: %v", err)
	}
	if err := add(h.While, "while the follower is down"); err != nil {
		return err
	}
	// compaction on every remaining node
	var firstIdx uint64
	for nm, n := range c.Live {
		r, err := n.Simple("node-force-snapshot", 0, "")
		if err != nil {
			return unsettled("snapshot on %s: %v", nm, err)
		}
		if r.Err != "" {
			return unsettled("snapshot on %s: %s", nm, r.Err)
		}
	}
	if lst, err := l.State(); err == nil {
		firstIdx = lst.First
	}
	compacted := xst != nil && (firstIdx == 0 || xst.Last+1 < firstIdx)
	var restored []string
	if !h.NewNode || h.Both {
		if err := c.Restart(xname); err != nil {
			if dead(err) {
				return fmt.Errorf("restarting the follower that missed compacted entries killed the process: %v", err)
			}
			return unsettled("restart: %v", err)
		}
		restored = append(restored, xname)
		rec.Class("returning-follower", 1)
	}
	if h.NewNode || h.Both {
		name, err := c.StartNew()
		if err != nil {
			if dead(err) {
				return fmt.Errorf("a brand-new node joining after compaction killed the process: %v", err)
			}
			return unsettled("new node: %v", err)
		}
		restored = append(restored, name)
		rec.Class("new-node", 1)
	}
	if err := check(fmt.Sprintf("after state transfer to %v", restored)); err != nil {
		return err
	}
	if h.Crash {
		// x is owned by the cluster from here on (CrashAll replaces the child)
		if err := c.CrashAll(); err != nil {
			if dead(err) {
				return fmt.Errorf("after a crash of all replicas (SIGKILL) following the state transfer to %v, the cluster cannot be restarted: %v", restored, err)
			}
			return unsettled("crash-all: %v", err)
		}
		rec.Class("crash-all-after-transfer", 1)
		if err := check(fmt.Sprintf("after SIGKILL of all replicas and restart (state had been transferred to %v)", restored)); err != nil {
			return err
		}
	}
	if h.Restart {
		for _, nm := range restored {
			if err := c.Stop(nm); err != nil {
				return unsettled("stop restored: %v", err)
			}
			if err := c.Restart(nm); err != nil {
				if dead(err) {
					return fmt.Errorf("restarting the restored node %s killed the process: %v", nm, err)
				}
				return unsettled("restart restored: %v", err)
			}
		}
		rec.Class("restored-node-restarted", 1)
	}
	if h.Transfer {
		if _, _, err := c.Transfer(); err != nil {
			return unsettled("transfer: %v", err)
		}
		rec.Class("leader-transfer", 1)
	}
	if err := add(h.After, "after the transfer"); err != nil {
		return err
	}
	if err := check(fmt.Sprintf("after later insertions (state was transferred to %v)", restored)); err != nil {
		return err
	}
	cls := []string{}
	if compacted {
		cls = append(cls, "compacted")
	}
	rec.Case(h, compacted && len(h.After) > 0, cls...)
	rec.Sample(len(h.While), h)
	return nil
}
