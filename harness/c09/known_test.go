package c09

import (
	"fmt"
	"testing"
	"time"

	"verif/pbt"
	"verif/rig"
	"verif/xp"
)

// TestKnownFindings reproduces the listed known finding of C09 on the real
// code (not counted as exploration).
func TestKnownFindings(t *testing.T) {
	defer pbt.CleanWork()
	rec := pbt.NewRec("C09", "TestKnownFindings", "probe of listed known findings (not counted as exploration)")
	defer rec.Flush()
	x, err := rig.StartExec("nodeexec")
	if err != nil {
		t.Skip(err)
	}
	defer x.Kill()
	dir := rig.WorkDir("c09known")
	leader, err := rig.OpenNode(x, "leader", xp.NodeOpts{Dir: dir + "/leader", Bootstrap: true, TimeoutMs: 150, SnapshotThreshold: 1 << 30, TrailingLogs: 1 << 20})
	if err != nil {
		t.Skip(err)
	}
	if err := leader.WaitLeader(20 * time.Second); err != nil {
		t.Skip(err)
	}
	for _, e := range []string{"first", "second", "third"} {
		if res, err := leader.Add([][]byte{[]byte(e)}, true); err != nil || res.Err != "" {
			t.Skipf("add: %v %v", err, res)
		}
	}
	follower, err := rig.OpenNode(x, "follower", xp.NodeOpts{Dir: dir + "/follower", Bootstrap: true, TimeoutMs: 150, SnapshotThreshold: 1 << 30, TrailingLogs: 1 << 20})
	if err != nil {
		t.Skip(err)
	}
	follower.WaitLeader(20 * time.Second)
	follower.Close(true)
	probe, err := x.Call(&xp.Req{Op: "node-fetch-snapshot", Name: "leader", A: 3, B: 1 << 62, C: 1 << 62}, 60*time.Second)
	if err != nil {
		t.Skip(err)
	}
	// an empty follower (last applied version 0, nothing held) is offered the leader's log from
	// the second insertion on, as after the WAL segment holding the first one was purged
	for start := uint64(1); start <= uint64(probe.Emitted); start++ {
		r, err := x.Call(&xp.Req{Op: "node-fetch-snapshot", Name: "leader", A: 0, B: start, C: 1 << 62}, 60*time.Second)
		if err != nil {
			t.Skip(err)
		}
		if r.Err != "" || len(r.Chunks) != 2 {
			continue
		}
		if rr, err := x.Call(&xp.Req{Op: "store-open", Name: "f", Path: dir + "/follower/db"}, 60*time.Second); err != nil || rr.Err != "" {
			t.Skipf("%v %v", err, rr)
		}
		if rr, err := x.Call(&xp.Req{Op: "store-load-snapshot", Name: "f", Chunks: r.Chunks}, 60*time.Second); err != nil || rr.Err != "" {
			t.Skipf("%v %v", err, rr)
		}
		fd, err := x.Call(&xp.Req{Op: "store-dump", Name: "f", Tables: true}, 60*time.Second)
		if err != nil {
			t.Skip(err)
		}
		has0, n := false, 0
		for _, kv := range fd.DumpKVs["history"] {
			if len(kv.K) == 10 && kv.K[8] == 0 && kv.K[9] == 0 {
				n++
				zero := true
				for _, b := range kv.K[:8] {
					if b != 0 {
						zero = false
					}
				}
				if zero {
					has0 = true
				}
			}
		}
		if n > 0 && !has0 {
			pbt.KnownFinding("C09", "F-C09-3", fmt.Sprintf("an empty follower (LastAppliedVersion=0) offered the leader's log from the second of three single insertions on (StartSeqNum=%d) is not refused: it loads versions 1..2 and lacks version 0", start))
		}
		return
	}
}
