package c09

import (
	"fmt"
	"testing"
	"time"

	"pgregory.net/rapid"

	"verif/pbt"
	"verif/rig"
	"verif/xp"
)

// FH: several nodes being restored from the same leader at the same time.
type FH struct {
	Bulks     [][]string `json:"bulks"`
	Followers int        `json:"followers"` // concurrent FetchSnapshot calls
	Applied   uint64     `json:"applied"`   // LastAppliedVersion they report (0 = brand-new nodes)
	Rounds    int        `json:"rounds"`
}

const ruleFetch = "several nodes restored from one leader at the same time (a returning follower and a brand-new node, as the cluster sequences' 'both' class does, but with the overlap forced): a leader RaftNode with a drawn history of 3-25 bulks; 2-4 concurrent RaftNode.FetchSnapshot calls (fake gRPC streams) with the same honest parameters, 1-5 rounds. Oracle: the leader's process survives, every call succeeds, and every stream carries exactly the chunks a lone call gets (same count, same bytes): one transfer must not disturb another. Non-trivial: always (>=2 concurrent transfers of >=1 batch). distinct = FNV-64 of the case."

var fetchRuns int

func TestConcurrentTransfers(t *testing.T) {
	rec := pbt.NewRec("C09", "TestConcurrentTransfers", ruleFetch)
	pbt.Run(t, rec, func(rt *rapid.T) FH {
		var h FH
		seq := 0
		h.Bulks = drawAdds(rt, "bulks", 3, 25, &seq)
		h.Followers = rapid.IntRange(2, 4).Draw(rt, "followers")
		if rapid.Bool().Draw(rt, "returning") {
			k := rapid.IntRange(1, len(h.Bulks)-1).Draw(rt, "have")
			ev := 0
			for _, b := range h.Bulks[:k] {
				ev += len(b)
			}
			h.Applied = uint64(ev - 1)
		}
		h.Rounds = rapid.IntRange(1, 5).Draw(rt, "rounds")
		return h
	}, execFetch)
}

func execFetch(h FH, rec *pbt.Rec) error {
	fetchRuns++
	un := func(f string, a ...interface{}) error { return &pbt.Unsettled{Why: fmt.Sprintf(f, a...)} }
	x, err := rig.StartExec("nodeexec")
	if err != nil {
		return un("executor: %v", err)
	}
	defer x.Kill()
	n, err := rig.OpenNode(x, "l", xp.NodeOpts{Dir: rig.WorkDir("c09f"), Bootstrap: true, TimeoutMs: 150, SnapshotThreshold: 1 << 30, TrailingLogs: 1 << 20})
	if err != nil {
		return un("open: %v", err)
	}
	if err := n.WaitLeader(20 * time.Second); err != nil {
		return un("%v", err)
	}
	for _, b := range h.Bulks {
		var evs [][]byte
		for _, e := range b {
			evs = append(evs, []byte(e))
		}
		if res, err := n.Add(evs, false); err != nil || res.Err != "" {
			return un("add: %v %v", err, res)
		}
	}
	const all = uint64(1) << 62
	lone, err := x.Call(&xp.Req{Op: "node-fetch-concurrent", Name: "l", N: 1, A: h.Applied, B: 0, C: all}, 60*time.Second)
	if err != nil {
		return fmt.Errorf("a single FetchSnapshot killed the leader: %v", err)
	}
	want, wantN := lone.DumpHash["stream-0"], lone.DumpCount["stream-0"]
	if wantN == 0 {
		return un("nothing to ship (%s)", want)
	}
	for r := 0; r < h.Rounds; r++ {
		resp, err := x.Call(&xp.Req{Op: "node-fetch-concurrent", Name: "l", N: uint64(h.Followers), A: h.Applied, B: 0, C: all}, 60*time.Second)
		if err != nil {
			return fmt.Errorf("round %d: %d nodes fetching the leader's state at the same time (LastAppliedVersion=%d, leader holds %d insertions) killed the leader: %v", r, h.Followers, h.Applied, len(h.Bulks), err)
		}
		for i := 0; i < h.Followers; i++ {
			k := fmt.Sprintf("stream-%d", i)
			if resp.DumpHash[k] != want || resp.DumpCount[k] != wantN {
				return fmt.Errorf("round %d: %d nodes fetching at the same time (LastAppliedVersion=%d): stream %d carries %d chunks (%s), a lone transfer carries %d (%s)", r, h.Followers, h.Applied, i, resp.DumpCount[k], clipS(resp.DumpHash[k]), wantN, clipS(want))
			}
		}
	}
	rec.Count("concurrent_transfers", int64(h.Rounds*h.Followers))
	rec.Case([]interface{}{h, fetchRuns}, true)
	rec.Sample(len(h.Bulks), map[string]interface{}{"bulks": len(h.Bulks), "followers": h.Followers, "applied": h.Applied, "rounds": h.Rounds})
	return nil
}

func clipS(s string) string {
	if len(s) > 60 {
		return s[:60] + "…"
	}
	return s
}
