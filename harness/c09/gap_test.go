package c09

import (
	"bytes"
	"fmt"
	"sort"
	"testing"
	"time"

	"pgregory.net/rapid"

	"verif/pbt"
	"verif/rig"
	"verif/xp"
)

type GH struct {
	Bulks    [][]string `json:"bulks"`     // leader's insertions
	Have     int        `json:"have"`      // the follower has applied the first Have bulks
	StartPct int        `json:"start_pct"` // StartSeqNum as a percentage of the leader's last WAL sequence number
	EndPct   int        `json:"end_pct"`   // EndSeqNum likewise (>=100: everything)
	LieBy    int        `json:"lie_by"`    // LastAppliedVersion reported = true value + LieBy (0 = honest)
}

const ruleGap = "the gap rule at its own interface: a leader RaftNode with a drawn history of bulks; a follower store that really holds the first k bulks (built by a second node applying the same events); RaftNode.FetchSnapshot is called directly (fake gRPC stream) with drawn StartSeqNum / EndSeqNum (raising StartSeqNum simulates a write-ahead log that no longer reaches back far enough) and a LastAppliedVersion that is honest or off by a drawn amount; the streamed chunks are loaded into the follower store with LoadSnapshot. Oracle: the call either fails, or the follower's history table afterwards has no hole (leaf versions 0..m contiguous) and, whenever it reaches the leader's version, its hyper / hyper-cache / history tables are byte-identical to the leader's; it never succeeds while leaving a gap. Non-trivial: the request skips WAL entries the follower needs (a refusal is required) or ships >=1 batch. distinct = FNV-64 of the case."

func TestFetchSnapshotGapRule(t *testing.T) {
	rec := pbt.NewRec("C09", "TestFetchSnapshotGapRule", ruleGap)
	pbt.Run(t, rec, func(rt *rapid.T) GH {
		var h GH
		seq := 0
		h.Bulks = drawAdds(rt, "bulks", 2, 8, &seq)
		h.Have = rapid.IntRange(0, len(h.Bulks)).Draw(rt, "have")
		h.StartPct = rapid.OneOf(rapid.Just(0), rapid.IntRange(0, 100)).Draw(rt, "start")
		h.EndPct = rapid.OneOf(rapid.Just(100), rapid.Just(100), rapid.IntRange(0, 100)).Draw(rt, "end")
		h.LieBy = rapid.SampledFrom([]int{0, 0, 0, 1, 2, -1}).Draw(rt, "lie")
		return h
	}, execGap)
}

func execGap(h GH, rec *pbt.Rec) error {
	un := func(f string, a ...interface{}) error { return &pbt.Unsettled{Why: fmt.Sprintf(f, a...)} }
	x, err := rig.StartExec("nodeexec")
	if err != nil {
		return un("executor: %v", err)
	}
	defer x.Kill()
	dir := rig.WorkDir("c09gap")
	mk := func(name string, bulks [][]string) (*rig.Node, error) {
		n, err := rig.OpenNode(x, name, xp.NodeOpts{Dir: dir + "/" + name, Bootstrap: true, TimeoutMs: 150, SnapshotThreshold: 1 << 30, TrailingLogs: 1 << 20})
		if err != nil {
			return nil, err
		}
		if err := n.WaitLeader(20 * time.Second); err != nil {
			return nil, err
		}
		for _, b := range bulks {
			var evs [][]byte
			for _, e := range b {
				evs = append(evs, []byte(e))
			}
			res, err := n.Add(evs, false)
			if err != nil || res.Err != "" {
				return nil, fmt.Errorf("add: %v %v", err, res)
			}
		}
		return n, nil
	}
	leader, err := mk("leader", h.Bulks)
	if err != nil {
		return un("leader: %v", err)
	}
	follower, err := mk("follower", h.Bulks[:h.Have])
	if err != nil {
		return un("follower: %v", err)
	}
	have := 0
	for _, b := range h.Bulks[:h.Have] {
		have += len(b)
	}
	total := 0
	for _, b := range h.Bulks {
		total += len(b)
	}
	if cerr, err := follower.Close(true); err != nil || cerr != "" {
		return un("closing follower: %v %v", err, cerr)
	}
	// the leader's last WAL sequence number (returned by a probe request)
	probe, err := x.Call(&xp.Req{Op: "node-fetch-snapshot", Name: "leader", A: uint64(total), B: 1 << 62, C: 1 << 62}, 60*time.Second)
	if err != nil {
		return un("probe: %v", err)
	}
	lastSeq := uint64(probe.Emitted)
	start := lastSeq * uint64(h.StartPct) / 100
	end := uint64(1 << 62)
	if h.EndPct < 100 {
		end = lastSeq * uint64(h.EndPct) / 100
	}
	lastApplied := uint64(0)
	if have > 0 {
		lastApplied = uint64(have - 1)
	}
	reported := int64(lastApplied) + int64(h.LieBy)
	if reported < 0 {
		reported = 0
	}
	r, err := x.Call(&xp.Req{Op: "node-fetch-snapshot", Name: "leader", A: uint64(reported), B: start, C: end}, 60*time.Second)
	if err != nil {
		return fmt.Errorf("FetchSnapshot(lastApplied=%d, start=%d, end=%d) killed the leader: %v", reported, start, end, err)
	}
	shipped := len(r.Chunks)
	tag := fmt.Sprintf("FetchSnapshot(LastAppliedVersion=%d [follower really holds %d events], StartSeqNum=%d, EndSeqNum=%d; leader holds %d events, last seq %d)", reported, have, start, end, total, lastSeq)
	if r.Err != "" {
		rec.Class("refused", 1)
		rec.Case(h, true)
		rec.Sample(len(h.Bulks), h)
		return nil // refused: always acceptable
	}
	// load what was shipped into the follower's store and look for holes
	if rr, err := x.Call(&xp.Req{Op: "store-open", Name: "f", Path: dir + "/follower/db"}, 60*time.Second); err != nil || rr.Err != "" {
		return un("open follower store: %v %v", err, rr)
	}
	// the follower's half of a refusal: when the stream breaks with an error (the leader
	// refusing, or the connection dying) before or between batches, loading must FAIL so
	// that the node does not consider itself restored
	if h.LieBy != 0 || h.StartPct%2 == 1 {
		failAt := 1 + (h.StartPct+h.EndPct)%(shipped+1)
		rr, err := x.Call(&xp.Req{Op: "store-load-snapshot", Name: "f", Chunks: r.Chunks, A: uint64(failAt)}, 60*time.Second)
		if err != nil {
			return fmt.Errorf("%s: loading a stream that breaks after %d batches killed the process: %v", tag, failAt-1, err)
		}
		if rr.Err == "" {
			return fmt.Errorf("%s: the transfer stream broke with an error after %d of %d batches, yet LoadSnapshot reported success: a refused / interrupted transfer is taken for a complete one", tag, failAt-1, shipped)
		}
		rec.Class("stream-broken", 1)
		rec.Case(h, true)
		rec.Sample(len(h.Bulks), h)
		return nil
	}
	if rr, err := x.Call(&xp.Req{Op: "store-load-snapshot", Name: "f", Chunks: r.Chunks}, 60*time.Second); err != nil {
		return fmt.Errorf("%s: loading the shipped batches killed the process: %v", tag, err)
	} else if rr.Err != "" {
		return un("load: %s", rr.Err)
	}
	fd, err := x.Call(&xp.Req{Op: "store-dump", Name: "f", Tables: true}, 60*time.Second)
	if err != nil {
		return un("dump: %v", err)
	}
	ld, err := leader.Dump()
	if err != nil {
		return un("leader dump: %v", err)
	}
	var leaves []uint64
	for _, kv := range fd.DumpKVs["history"] {
		if len(kv.K) == 10 && kv.K[8] == 0 && kv.K[9] == 0 {
			var v uint64
			for _, b := range kv.K[:8] {
				v = v<<8 | uint64(b)
			}
			leaves = append(leaves, v)
		}
	}
	sort.Slice(leaves, func(i, j int) bool { return leaves[i] < leaves[j] })
	// known finding F-C09-3: "last applied version 0" means both "nothing applied" and "event 0
	// applied"; an EMPTY follower offered a log that starts at the second insertion, after a
	// single-event first insertion (PreviousVersion 0), is not refused and ends up without version 0
	if have == 0 && reported == 0 && len(h.Bulks[0]) == 1 && len(leaves) > 0 && leaves[0] == 1 && pbt.Known("F-C09-3") {
		contiguous := true
		for i, v := range leaves {
			if v != uint64(i+1) {
				contiguous = false
			}
		}
		if contiguous {
			rec.Count("excluded_by_known_finding:F-C09-3", 1)
			x.Call(&xp.Req{Op: "store-close", Name: "f"}, 30*time.Second)
			rec.Case(h, true)
			return nil
		}
	}
	for i, v := range leaves {
		if v != uint64(i) {
			return fmt.Errorf("%s succeeded, shipped %d batches, and the follower's history now jumps from version %d to %d: a gap was applied instead of refused", tag, shipped, i-1, v)
		}
	}
	if len(leaves) < have {
		return fmt.Errorf("%s: follower lost events (%d -> %d)", tag, have, len(leaves))
	}
	if len(leaves) == total {
		for _, tbl := range []string{"hyper", "hypercache", "history"} {
			if fd.DumpHash[tbl] != ld.DumpHash[tbl] {
				return fmt.Errorf("%s succeeded and the follower reached the leader's version, but its %s table differs from the leader's (%d vs %d entries)", tag, tbl, fd.DumpCount[tbl], ld.DumpCount[tbl])
			}
		}
		rec.Class("caught-up", 1)
	}
	x.Call(&xp.Req{Op: "store-close", Name: "f"}, 30*time.Second)
	rec.Class(fmt.Sprintf("shipped>0=%v", shipped > 0), 1)
	rec.Case(h, shipped > 0)
	rec.Sample(len(h.Bulks), h)
	_ = bytes.Equal
	return nil
}
