# source me: environment under which every check builds /repo (see DESIGN.md §2)
VERIF_DIR="${VERIF_DIR:-/verif}"
export VERIF_REPO="${VERIF_REPO:-/repo}"
export GOFLAGS=-mod=mod GOPROXY=off GOSUMDB=off GOTOOLCHAIN=local
export CGO_ENABLED=1
export CGO_LDFLAGS_ALLOW='-Wl,-unresolved_symbols=ignore-all'
_qc_ver=$(cat "$VERIF_DIR"/compat/include/rocksdb/c.h "$VERIF_DIR"/compat/include/rocksdb/utilities/backupable_db.h "$VERIF_DIR"/compat/bin/cxx | cksum | cut -d' ' -f1)
export CGO_CFLAGS="-I$VERIF_DIR/compat/include -DQEDCOMPAT_VER=$_qc_ver -O2 -g"
export CGO_CXXFLAGS="-I$VERIF_DIR/compat/include -DQEDCOMPAT_VER=$_qc_ver -O2 -g"
export CXX="$VERIF_DIR/compat/bin/cxx"
