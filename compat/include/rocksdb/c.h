/* /verif compat shim: lets BBVA/QED's RocksDB 6.x cgo wrapper build against the
 * system librocksdb 7.8 without touching /repo.  Only three symbols differ. */
#ifndef QEDCOMPAT_ROCKSDB_C_H
#define QEDCOMPAT_ROCKSDB_C_H

/* (a) QED's extended.cpp defines its own rocksdb_backup_engine_restore_db_from_backup
 *     with a different argument order: hide the system declaration under another name. */
#define rocksdb_backup_engine_restore_db_from_backup qedcompat_sys_restore_db_from_backup
/* (b) bloom filter constructors take double in 7.8, QED passes C.int. */
#define rocksdb_filterpolicy_create_bloom qedcompat_sys_create_bloom
#define rocksdb_filterpolicy_create_bloom_full qedcompat_sys_create_bloom_full

#include_next <rocksdb/c.h>

#undef rocksdb_backup_engine_restore_db_from_backup
#undef rocksdb_filterpolicy_create_bloom
#undef rocksdb_filterpolicy_create_bloom_full

#ifdef __cplusplus
extern "C" {
#endif

extern rocksdb_filterpolicy_t* qedcompat_real_create_bloom(double) __asm__("rocksdb_filterpolicy_create_bloom");
extern rocksdb_filterpolicy_t* qedcompat_real_create_bloom_full(double) __asm__("rocksdb_filterpolicy_create_bloom_full");

static inline rocksdb_filterpolicy_t* rocksdb_filterpolicy_create_bloom(int bits)
    __asm__("qedcompat_inline_create_bloom");
static inline rocksdb_filterpolicy_t* rocksdb_filterpolicy_create_bloom(int bits) {
  return qedcompat_real_create_bloom((double)bits);
}
static inline rocksdb_filterpolicy_t* rocksdb_filterpolicy_create_bloom_full(int bits)
    __asm__("qedcompat_inline_create_bloom_full");
static inline rocksdb_filterpolicy_t* rocksdb_filterpolicy_create_bloom_full(int bits) {
  return qedcompat_real_create_bloom_full((double)bits);
}

/* (c) removed in 7.x (was already a no-op knob). */
static inline void rocksdb_block_based_options_set_hash_index_allow_collision(
    rocksdb_block_based_table_options_t* o, unsigned char v) { (void)o; (void)v; }

#ifdef __cplusplus
}
#endif
#endif
