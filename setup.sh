#!/bin/sh
# Run once after a fresh restore, offline: pre-builds the harness against /repo so
# that the first check does not pay for the cgo RocksDB wrapper. Everything is
# rebuilt by ./check anyway (go's build cache decides what is stale).
set -e
cd "$(dirname "$0")"
. ./env.sh
mkdir -p build evidence
cd harness
go build -tags verif ./... 
go vet -tags verif ./pbt/ >/dev/null 2>&1 || true
echo "setup ok"
