"""Per-property unit tables used by ./check and tools/mkmanifest.py.

unit = one Test function of a harness package, run as `shards` processes with
`checks` rapid cases each (case-count bound; `timeout` is only a wall-clock
guard whose expiry means "inconclusive").  The driver runs at most 16 shard
processes at a time; the thorough tier is many short-lived processes rather
than few long ones, because every in-process balloon pins its 1.15 GB cache
(pbt/mem.go) and a process's resident set grows with the cases it has run.  `needs` lists helper binaries
(harness/cmd/<name>) to rebuild; `race` builds the test binary with -race.
"""

def U(pkg, test, quick=None, thorough=None, **kw):
    d = {"pkg": pkg, "test": test}
    if quick is not None:
        d["quick"] = quick
    if thorough is not None:
        d["thorough"] = thorough
    d.update(kw)
    return d

def T(checks=None, shards=1, timeout=600, **kw):
    d = {"shards": shards, "timeout": timeout}
    if checks is not None:
        d["checks"] = checks
    d.update(kw)
    return d

H = "/verif/harness/"

PROPS = {
    "C01": {
        "level": "exploration",
        "units": [
            U("c01", "TestMembership", T(20, 16, 300), T(25, 96, 600)),
            U("c01", "TestRocksMembership", T(4, 12, 300, shrinktime="40s"), T(6, 64, 900, shrinktime="120s"), needs=["nodeexec"]),
        ],
    },
    "C02": {
        "level": "exploration",
        "units": [
            U("c02", "TestSoundness", T(60, 16, 300), T(100, 96, 900)),
            U("c02", "TestConcurrentVerifiers", T(6, 4, 300), T(10, 32, 900), race=True),
            U("c02", "TestAutoVerify", T(25, 8, 300), T(40, 80, 600)),
        ],
    },
    "C03": {
        "level": "exploration",
        "units": [
            U("c03", "TestConsistency", T(30, 16, 300), T(30, 80, 600)),
        ],
    },
    "C04": {
        "level": "exploration",
        "units": [
            U("c04", "TestBalloonVsRef", T(40, 16, 300), T(40, 64, 900)),
            U("c04", "TestTreesVsRef", T(60, 16, 300), T(60, 96, 900)),
            U("c04", "TestRocksBalloonVsRef", T(5, 12, 300, shrinktime="40s"), T(8, 64, 900, shrinktime="120s"), needs=["nodeexec"]),
        ],
    },
    "C05": {
        "level": "exploration",
        "units": [
            U("c05", "TestBalloonDense", T(40, 8, 300), T(60, 80, 600)),
            U("c05", "TestNodeDense", T(3, 16, 300, shrinktime="60s"), T(5, 64, 900, shrinktime="180s"), needs=["nodeexec"]),
            U("c05", "TestConcurrentClients", T(4, 16, 300, shrinktime="40s"), T(5, 80, 900, shrinktime="120s"), needs=["nodeexec"]),
            U("c05", "TestClusterDense", T(1, 8, 400, shrinktime="60s"), T(2, 80, 900, shrinktime="180s"), needs=["nodeexec"]),
        ],
    },
    "C06": {
        "level": "exploration",
        "units": [
            U("c06", "TestReplicas", T(3, 16, 400, shrinktime="60s"), T(4, 80, 1200, shrinktime="240s"), needs=["nodeexec"]),
        ],
    },
    "C09": {
        "level": "exploration",
        "units": [
            U("c09", "TestStateTransfer", T(2, 12, 400, shrinktime="60s"), T(3, 80, 1200, shrinktime="240s"), needs=["nodeexec"]),
            U("c09", "TestConcurrentTransfers", T(4, 8, 300, shrinktime="40s"), T(6, 64, 900, shrinktime="120s"), needs=["nodeexec"]),
            U("c09", "TestKnownFindings", T(None, 1, 120), T(None, 1, 120), needs=["nodeexec"]),
            U("c09", "TestFetchSnapshotGapRule", T(4, 8, 400, shrinktime="60s"), T(6, 80, 900, shrinktime="180s"), needs=["nodeexec"]),
        ],
    },
    "C07": {
        "level": "fault_enumeration",
        "units": [
            U("c07", "TestCrashPoints", T(1, 12, 400, shrinktime="90s"), T(1, 96, 900, shrinktime="300s"), needs=["nodeexec"]),
            U("c07", "TestKillAnytime", T(4, 10, 400, shrinktime="60s"), T(6, 80, 900, shrinktime="200s"), needs=["nodeexec"]),
        ],
    },
    "C08": {
        "level": "exploration",
        "units": [
            U("c08", "TestRocksRestart", T(4, 16, 300, shrinktime="60s"), T(6, 80, 900, shrinktime="180s"), needs=["nodeexec"]),
            U("c08", "TestFollowerBounce", T(1, 12, 400, shrinktime="60s"), T(3, 64, 1200, shrinktime="200s"), needs=["nodeexec"]),
            U("c08", "TestServerStop", T(3, 12, 400, shrinktime="45s"), T(5, 64, 900, shrinktime="150s"), needs=["nodeexec"]),
            U("c08", "TestBPlusRestart", T(25, 8, 300), T(40, 80, 600)),
        ],
    },
    "C16": {
        "level": "exploration",
        "units": [
            U("c16", "TestBackupRestore", T(5, 16, 400, shrinktime="45s"), T(5, 48, 900, shrinktime="200s"), needs=["nodeexec"]),
            U("c16", "TestBackupOfReplica", T(1, 10, 400, shrinktime="45s"), T(2, 64, 900, shrinktime="200s"), needs=["nodeexec"]),
            U("c16", "TestKnownFindings", T(None, 1, 120), T(None, 1, 120), needs=["nodeexec"]),
        ],
    },
    "C10": {
        "level": "exploration",
        "units": [
            U("c10", "TestGatedApply", T(8, 16, 300, shrinktime="30s"), T(15, 80, 900, shrinktime="120s"), needs=["nodeexec"]),
            U("c10", "TestRaceStress", T(2, 4, 400, shrinktime="20s"), T(3, 32, 900, shrinktime="60s"), needs=["nodeexec.race"]),
        ],
    },
    "C11": {
        "level": "exploration",
        "units": [
            U("c11", "TestRequests", T(5, 16, 400, shrinktime="60s"), T(5, 64, 900, shrinktime="240s"), needs=["nodeexec"]),
            U("c11", "TestFuzzCorpus", T(None, 1, 120), T(None, 1, 120)),
            U("c11", "FuzzAPIHandlers", None, T(None, 1, 600, fuzz="180s", cwd=H + "c11", cores=16, fuzzprocs=8), fuzzbuild=True),
            U("c11", "TestReplayFuzz"),
        ],
    },
    "C17": {
        "level": "exploration",
        "units": [
            U("c17", "TestSender", T(12, 12, 300), T(25, 64, 600)),
            U("c17", "TestNodeHandsOver", T(4, 8, 300, shrinktime="30s"), T(6, 80, 600, shrinktime="90s"), needs=["nodeexec"]),
        ],
    },
    "C18": {
        "level": "exploration",
        "units": [
            U("c18", "TestAtMostOnce", T(60, 4, 300), T(100, 64, 600)),
            U("c18", "TestNetwork", T(5, 8, 300, shrinktime="30s"), T(8, 64, 900, shrinktime="90s")),
            U("c18", "TestTopologyModel", T(1500, 2, 300), T(3000, 32, 600)),
            U("c18", "TestTopologyRace", T(30, 2, 300), T(50, 32, 900), race=True),
        ],
    },
    "C19": {
        "level": "exploration",
        "units": [
            U("c19", "TestAuditor", T(25, 8, 300), T(40, 80, 600)),
            U("c19", "TestMonitor", T(25, 6, 300), T(40, 80, 600)),
            U("c19", "TestPipeline", T(6, 8, 300), T(20, 48, 900)),
            U("c19", "TestPublisher", T(400, 2, 300), T(800, 32, 600)),
        ],
    },
    "C20": {
        "level": "exploration",
        "units": [
            U("c20", "TestTopology", T(3000, 4, 300), T(6000, 32, 600)),
            U("c20", "TestClient", T(40, 12, 400, shrinktime="30s"), T(60, 80, 900, shrinktime="120s")),
        ],
    },
    "C12": {
        "level": "exploration",
        "units": [
            U("c12", "TestStructured", T(40, 12, 300), T(60, 80, 600), death_is_violation=True),
            U("c12", "TestScriptedServer", T(12, 4, 300), T(15, 80, 600), death_is_violation=True),
            U("c12", "TestCorpus", T(None, 1, 300), T(None, 1, 300)),
            U("c12", "FuzzMembershipAnswer", None, T(None, 1, 600, fuzz="240s", cwd=H + "c12", cores=16), fuzzbuild=True),
            U("c12", "FuzzIncrementalAnswer", None, T(None, 1, 600, fuzz="240s", cwd=H + "c12", cores=16), fuzzbuild=True),
            U("c12", "TestReplayBytes"),
        ],
    },
    "C14": {
        "level": "exploration",
        "units": [
            U("c14", "TestBPlus", T(1500, 4, 300), T(3000, 32, 600)),
            U("c14", "TestRocks", T(25, 12, 300, shrinktime="40s"), T(40, 80, 900, shrinktime="120s"), needs=["nodeexec"]),
            U("c14", "TestRocksAtomicBatch", T(None, 1, 300), T(None, 1, 900), needs=["nodeexec"]),
        ],
    },
    "C15": {
        "level": "exploration",
        "units": [
            U("c15", "TestLogStore", T(25, 16, 300, shrinktime="40s"), T(40, 80, 900, shrinktime="120s"), needs=["nodeexec"]),
        ],
    },
    "C13": {
        "level": "exploration",
        "units": [
            U("c13", "TestProofRoundTrip", T(12, 16, 300), T(15, 64, 600)),
            U("c13", "TestCommandLine", T(10, 8, 300), T(15, 48, 600)),
            U("c13", "TestSyntheticRoundTrip", T(1500, 4, 300), T(3000, 32, 600)),
        ],
    },
}

# commits in /repo that add the build-tag-guarded hooks
HOOK_COMMITS = ["e12f4a5", "311d23f"]
