"""Per-property unit tables used by ./check and tools/mkmanifest.py.

unit = one Test function of a harness package, run as `shards` processes with
`checks` rapid cases each (case-count bound; `timeout` is only a wall-clock
guard whose expiry means "inconclusive").  `needs` lists helper binaries
(harness/cmd/<name>) to rebuild; `race` builds the test binary with -race.
"""

def U(pkg, test, quick=None, thorough=None, **kw):
    d = {"pkg": pkg, "test": test}
    if quick is not None:
        d["quick"] = quick
    if thorough is not None:
        d["thorough"] = thorough
    d.update(kw)
    return d

def T(checks=None, shards=1, timeout=600, **kw):
    d = {"shards": shards, "timeout": timeout}
    if checks is not None:
        d["checks"] = checks
    d.update(kw)
    return d

PROPS = {
    "C04": {
        "level": "exploration",
        "units": [
            U("c04", "TestBalloonVsRef", T(12, 16, 300), T(150, 16, 1800)),
            U("c04", "TestTreesVsRef", T(400, 8, 300), T(4000, 16, 1800)),
        ],
    },
}
