#!/bin/sh
# usage: tools/seed_confirm.sh <ID> [<srcdir>]  — copies a sub-agent's deliverables into /verif/seeded/<ID>/ and
# confirms them in a scratch worktree: patch applies, builds, pinned suite passes, demo fails with / passes without.
id=$1; src=${2:-/tmp/seed/$id.out}
dst=/verif/seeded/$id
mkdir -p $dst && cp $src/patch.diff $src/meta.json $src/run.sh $dst/ && cp $src/demo* $dst/ 2>/dev/null
wt=/tmp/confirm/$id
git -C /repo worktree remove --force $wt 2>/dev/null; rm -rf $wt; mkdir -p /tmp/confirm
git -C /repo worktree add -q --detach $wt HEAD || exit 2
. /opt/seedkit/env.sh
cd $wt
res=$dst/confirm.txt; : > $res
git apply $dst/patch.diff && echo "apply: ok" >> $res || { echo "apply: FAILED" >> $res; }
(go build ./... > /tmp/confirm/$id.build 2>&1) && echo "build: ok" >> $res || echo "build: FAILED" >> $res
(go test -vet=off -count=1 ./client/... ./crypto/... ./gossip/... ./log/... ./storage/bplus/... ./testutils/spec/... > /tmp/confirm/$id.pinned 2>&1) && echo "pinned suite with change: pass" >> $res || echo "pinned suite with change: FAIL" >> $res
bash $dst/run.sh $wt > /tmp/confirm/$id.with 2>&1; echo "demo with change: exit $? (expected non-zero)" >> $res
git apply -R $dst/patch.diff
bash $dst/run.sh $wt > /tmp/confirm/$id.without 2>&1; echo "demo without change: exit $? (expected 0)" >> $res
cd /; git -C /repo worktree remove --force $wt; rm -rf /var/tmp/cluster-test/* 2>/dev/null
cat $res
