#!/usr/bin/env python3
"""Folds tools/seed_confirm.sh output and tools/sens results into seeded/<id>/meta.json (key "verif")."""
import json, os, glob
V = os.path.dirname(os.path.dirname(os.path.abspath(__file__)))
res = {}
for l in open(os.path.join(V, "tools/sens/results.jsonl")):
    try:
        d = json.loads(l)
    except Exception:
        continue
    if d["name"].startswith("seed-"):
        res.setdefault(d["name"][5:], []).append(d)
for md in sorted(glob.glob(os.path.join(V, "seeded/*/meta.json"))):
    sid = os.path.basename(os.path.dirname(md))
    m = json.load(open(md))
    conf = ""
    cf = os.path.join(os.path.dirname(md), "confirm.txt")
    if os.path.exists(cf):
        conf = open(cf).read().strip().splitlines()
    runs = []
    for d in res.get(sid, []):
        for r in d.get("results", []):
            runs.append({"at": d.get("at"), "check": "./check %s %s (VERIF_REPO=<scratch worktree with patch.diff applied>)" % (r["property"], d.get("tier", "quick")),
                         "exit": r["rc"], "wall_s": r["wall_s"], "first_violation": r.get("first", "")[:300]})
    m["verif"] = {
        "breaks_property": m.get("property", sid[:3]),
        "confirmed_by": "tools/seed_confirm.sh %s: scratch worktree of /repo HEAD, git apply patch.diff, go build ./..., pinned suite, run.sh with and without the change" % sid,
        "confirmation": conf,
        "check_runs": runs,
        "detected_by_quick": sorted({r["check"].split()[1] for r in runs if r["exit"] == 1}),
    }
    json.dump(m, open(md, "w"), indent=1)
    print(sid, m["verif"]["detected_by_quick"], [(r["check"].split()[1], r["exit"]) for r in runs])
