#!/usr/bin/env python3
"""Sensitivity runner: applies a deliberate breakage to a scratch worktree of /repo
and runs a property's check against it (VERIF_REPO=<worktree>); the check must go red.

  tools/sens/run.py list
  tools/sens/run.py run <name>... | all      [--tier quick]

Catalogue entries (tools/sens/catalogue.json): name, property (or list), and one of
  "revert": "<commit>"            undo one fix: commit (a real defect comes back)
  "patch":  "<file under tools/sens/patches or seeded/<id>/patch.diff>"
Results are appended to tools/sens/results.jsonl.
"""
import json, os, subprocess, sys, time, shutil

VERIF = os.path.dirname(os.path.dirname(os.path.dirname(os.path.abspath(__file__))))
CAT = json.load(open(os.path.join(VERIF, "tools/sens/catalogue.json")))


def sh(cmd, **kw):
    return subprocess.run(cmd, shell=True, stdout=subprocess.PIPE, stderr=subprocess.STDOUT, text=True, **kw)


def run_one(e, tier):
    name = e["name"]
    wt = "/tmp/sens/%s.%d" % (name, os.getpid())
    sh("git -C /repo worktree remove --force %s" % wt)
    shutil.rmtree(wt, ignore_errors=True)
    r = sh("git -C /repo worktree add -q --detach %s HEAD" % wt)
    if r.returncode != 0:
        return {"name": name, "error": "worktree: " + r.stdout}
    try:
        if "revert" in e:
            r = sh("git -C %s revert --no-commit %s" % (wt, e["revert"]))
        else:
            pf = e["patch"] if os.path.isabs(e["patch"]) else os.path.join(VERIF, e["patch"])
            r = sh("git -C %s apply %s" % (wt, pf))
        if r.returncode != 0:
            return {"name": name, "error": "apply: " + r.stdout[-500:]}
        out = []
        props = e["property"] if isinstance(e["property"], list) else [e["property"]]
        for p in props:
            t0 = time.time()
            env = dict(os.environ, VERIF_REPO=wt, VERIF_BUILD_TAG=".sens.%s.%d" % (name, os.getpid()), VERIF_SHRINKTIME=os.environ.get("VERIF_SHRINKTIME", "8s"))
            rr = subprocess.run(["./check", p, tier], cwd=VERIF, env=env, stdout=subprocess.PIPE, stderr=subprocess.STDOUT, text=True)
            viol = [l for l in rr.stdout.splitlines() if l.startswith("VIOLATION")]
            first = ""
            lines = rr.stdout.splitlines()
            for i, l in enumerate(lines):
                if l.startswith("VIOLATION") and i + 1 < len(lines):
                    first = lines[i + 1].strip()[:300]
                    break
            out.append({"property": p, "rc": rr.returncode, "violations": len(viol), "wall_s": round(time.time() - t0, 1), "first": first,
                        "tail": "" if rr.returncode == 1 else rr.stdout[-400:]})
            shutil.rmtree(os.path.join(VERIF, "build", p + ".sens.%s.%d" % (name, os.getpid())), ignore_errors=True)
        return {"name": name, "what": e.get("what", ""), "results": out, "detected": all(o["rc"] == 1 for o in out)}
    finally:
        sh("git -C /repo worktree remove --force %s" % wt)
        shutil.rmtree(wt, ignore_errors=True)


def main():
    if len(sys.argv) < 2 or sys.argv[1] == "list":
        for e in CAT:
            print(e["name"], e["property"], e.get("what", ""))
        return
    tier = "quick"
    names = [a for a in sys.argv[2:] if not a.startswith("--")]
    if "--tier" in sys.argv:
        tier = sys.argv[sys.argv.index("--tier") + 1]
        names = [n for n in names if n != tier]
    sel = CAT if names == ["all"] else [e for e in CAT if e["name"] in names]
    os.makedirs("/tmp/sens", exist_ok=True)
    for e in sel:
        res = run_one(e, tier)
        res["tier"] = tier
        res["at"] = time.strftime("%Y-%m-%dT%H:%M:%S")
        with open(os.path.join(VERIF, "tools/sens/results.jsonl"), "a") as f:
            f.write(json.dumps(res) + "\n")
        print(json.dumps(res)[:600])


main()
