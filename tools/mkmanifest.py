#!/usr/bin/env python3
"""Regenerates /verif/MANIFEST.json from verifcfg.PROPS and the texts below."""
import json, os, sys
VERIF = os.path.dirname(os.path.dirname(os.path.abspath(__file__)))
sys.path.insert(0, VERIF)
import verifcfg

TEXT = {
 "C01": dict(tech="rapid model-based generation of log histories; exhaustive (event, query-version) pairs per small log; verifier as oracle",
   text="Generated-input search: every generated log (digest patterns incl. long shared prefixes, any Add/AddBulk split) is built on the real Balloon, and every (event, query version) pair of small logs (boundary+drawn pairs of large ones) must yield an answer that exists, names a true insertion version and verifies (object, JSON wire form, real HTTP client) against the snapshots the log issued; re-checked after every later insertion. Held-on-everything-explored, not a proof.",
   note="Trusts crypto/sha256 and the snapshots returned by the log (tied to the independent reference model by C04). In-process bplus store, plus a unit on a real RocksDB store with close/reopen at drawn points (TestRocksMembership).", ref="§5 C01"),
 "C02": dict(tech="rapid adversarial-answer grammar over genuine answers; soundness oracle from the generator's ground truth",
   text="Generated-input search over candidate answers an adversarial server can assemble (0-3 operators over every field and audit-path entry, splices, extra entries carrying the true hash of a node the verifier must compute itself, prefix-sharing digests and near misses of the base event, honest non-member answers), verified exactly as a client does against authentic snapshots and, in a second unit, through the real HTTP client's one-call MembershipAutoVerify against a lying server; any accepted false claim is a violation. Exploration of a grammar, not a cryptographic proof.",
   note="Adversary limited to the operator grammar; SHA-256 collisions out of scope; a verifier panic counts as 'not accepted' here (C12 owns it).", ref="§5 C02"),
 "C03": dict(tech="rapid log histories; exhaustive (i,j) pairs; substitution / fork / alteration families with rejection oracle",
   text="For every generated log and every pair i<=j (all pairs up to the bound) the incremental proof must verify against snapshots i and j and must be rejected under substituted digests (other versions, forked logs sharing any prefix), altered versions and every single audit-path alteration; proofs are held across all later queries and re-verified, and several auditors query at once. Exploration.",
   note="Forked logs' digests come from the independent reference history tree; panics count as rejection (C12).", ref="§5 C03"),
 "C04": dict(tech="differential testing against an independent reference implementation of both Merkle trees; metamorphic partition/restart/cache relations",
   text="Every snapshot returned for generated (sequence x partition x restart points x cache capacity) is compared byte-for-byte with an independent re-implementation of the published construction (crypto/sha256 only); same sequence under another partition must give the same digests. Exploration; an independent oracle is what catches changes applied consistently to prover and verifier.",
   note="Hyper inner-node byte order pinned to what the pinned tree publishes (right child first); reference model and QED share only crypto/sha256.", ref="§5 C04, §4.1"),
 "C12": dict(tech="rapid structural mutation of genuine answers + scripted HTTP server + Go native coverage-guided fuzzing with totality oracle",
   text="Every generated hostile answer (structural malformations over genuine answers; scripted server bodies/status codes against the real client, whose results are then used the way the CLI and the agents use them; coverage-guided byte fuzzing in thorough, its corpus replayed in quick) must be decoded and verified without panic, within 5 s and 256 MB. Exploration.",
   note="The digest the client asks about is its own 32-byte value (caller precondition); hangs are detected with a 5 s bound.", ref="§5 C12"),
 "C13": dict(tech="rapid round-trip (encode/decode) with field equality and verdict-equivalence oracle",
   text="decode(encode(x)) == x for every genuine membership/incremental answer of generated logs (incl. clamped q>current, audit-path indexes >= 256), synthetic audit paths up to 2^64-1, snapshots/batches, replicated commands/state codecs and gossip messages; decoded proofs must give the original's verdict on genuine and wrong inputs; every encoding handed out during a case is held and must be byte-identical at its end; the real qed command line (client membership --verify) must print the original answer's fields and verdict. Exploration.",
   note="nil and empty byte slices are identified where the codec conflates them; msgpack/JSON libraries are trusted.", ref="§5 C13"),
 "C14": dict(tech="rapid stateful (model-based) testing of both store back-ends against a sorted-map-per-table model; executor child for RocksDB",
   text="Generated sequences of mutate/get/range/scan/last/reopen over all tables with adversarial keys are run on BPlusTreeStore (in-process) and RocksDBStore (in a child process so that an abort at close is an observation) and every observation is compared with a map model; a writer/reader pair and a SIGKILL/reopen all-or-nothing check decide batch atomicity on RocksDB for batches of 2 to 3001 mutations. Exploration.",
   note="RocksDB 7.8 (Debian build, assertions on) through the /verif/compat shim is the trusted base; bplus concurrency is not generated (no caller uses it concurrently).", ref="§5 C14"),
 "C15": dict(tech="rapid stateful (model-based) testing of the raft log store against a map model, run in an executor child",
   text="Generated sequences of StoreLog/StoreLogs/GetLog/DeleteRange/FirstIndex/LastIndex/Set/Get/SetUint64/GetUint64/reopen (also with the sync option switched) with indexes anywhere in uint64 and payloads up to 64 KB are run on the real RocksDB-backed log store (consensus hook) and compared field by field with a map model, again after reopen and a clean process end. Exploration.",
   note="Stable-store values are non-empty and uint64/byte settings use separate keys (as raft does); RocksDB is trusted.", ref="§5 C15"),
 "C05": dict(tech="rapid stateful sequence-model testing at balloon and RaftNode level (restarts, SIGKILL crash points, forced snapshots) with dense-version oracle",
   text="Generated histories of single/bulk adds interleaved with restarts, crash points, injected write faults (the store refuses a write), snapshots (and, in the cluster tier, leadership transfers) are run on the real Balloon / RaftNode; the k-th acknowledged event must carry version k-1, bulks consecutive versions in request order, each snapshot its own event digest, and proofs CurrentVersion = accepted-1; a further unit runs 2-16 clients at once against one node and requires every acknowledgement to bind its own events and the versions to be exactly 0..N-1 once. Exploration.",
   note="Failures that belong to other properties (node death, digests) make a case inconclusive here, not a violation.", ref="§5 C05"),
 "C07": dict(tech="fault injection: enumeration of every crash point (before/after each store write) of rapid-generated workloads, SIGKILL + restart, prefix/exactly-once oracle vs reference model",
   text="For each generated workload every apply x {before, after the store write} is crashed by SIGKILL through a wrapper around the real RocksDB store, the node is restarted and must reach exactly acknowledged+in-flight events, continue with reference-equal snapshots and keep every pre-crash snapshot verifiable. Exhaustive over the crash points of each generated workload; workloads are sampled. A second unit kills a node at wall-clock instants of a running stream (half of the streams start with a bulk above 1000 events) with an oracle that does not depend on where the kill landed; in half of its cases the node kills itself a drawn number of microseconds after a store write entered RocksDB (a kill aimed inside the write).",
   note="SIGKILL keeps the page cache (no torn writes); a crash inside RocksDB's own write can only be aimed at by time, not placed; single node.", ref="§5 C07"),
 "C08": dict(tech="rapid histories x stop points; metamorphic oracle (restarted node == reference model of the uninterrupted run) + process-exit observation in a child",
   text="Generated workloads are run with clean stop/restart at every / one / some stop points on RocksDB (child processes: Close must return, exit status 0, no abort) and on bplus (re-constructed Balloon); all later snapshots must equal the reference of the uninterrupted sequence and proofs of pre-stop events verify against pre-stop snapshots; a cluster unit stops a follower again while it is still applying the backlog it missed (Close must return within 60 s, afterwards the replica must equal the others); a complete server.Server is stopped while read-only clients (metrics scrapes, queries, management listing) keep calling, restarted and held to the same oracle. Exploration.",
   note="Debian librocksdb has assertions on: a leaked iterator at close aborts the child, which is how 'releases every storage resource' is observed. Shutdown liveness = 30 s bound.", ref="§5 C08"),
 "C10": dict(tech="schedule-controlled concurrency testing: rapid-generated query sets against an apply parked by a gating store wrapper, plus race-detector stress of the public API",
   text="The harness owns the schedule the property singles out: an insertion is parked between computing and persisting (gating wrapper around the real RocksDB store, no repo hook), generated queries start concurrently, the write is released, and every answer must be an error or a proof verifying against the snapshots issued for the versions it names; never a panic, hang or mixed state. A second tier runs concurrent adders/queriers in a -race build. Exploration of that interleaving and its neighbours, not of all schedules.",
   note="Only executed schedules are seen by the race detector; event digests are SHA-256 of text, so in-flight and old keys share no long prefix.", ref="§5 C10"),
 "C16": dict(tech="rapid stateful model-based testing of backup / delete / list / restore sequences on a real RaftNode, restored nodes opened in a second child",
   text="Generated sequences of add/backup/delete/list/restore run on a real single-node RaftNode, each step either on the node or through the management API (POST /backup, GET /backups, DELETE /backup?backupID=<12 spellings, 10 of which name no backup>), restores with the real `qed restore` command line in a second child; listing must equal the model, a delete removes exactly the backup it names, and a fresh node opened on each restored backup must report the backup's version, prove membership/consistency of exactly the first v+1 events against the originally issued snapshots, deny later events, and give v+1 with reference digests to its first accepted insertion. A cluster unit takes the backup on a replica that received its state by transfer from the leader. Exploration; one known finding (F-C16-1) is tolerated by exact signature and probed.",
   note="Backups are taken of non-empty logs; restored node uses a fresh raft directory (documented procedure).", ref="§5 C16"),
 "C11": dict(tech="rapid grammar-based request generation over real TCP against a full server in a child process; liveness + follow-up-correctness oracle incl. restart/log replay",
   text="Generated request sequences (method x route x body grammar x query parameters) hit the API and management ports of a complete server.Server running in a child; every request must get a well-formed HTTP response, the process must stay alive (also 300 ms later: FSM panics are asynchronous), the next valid insertion must get the next dense version with a verifying proof (so a wedged apply path shows), and the server must restart on its directories (log replay) and serve again. Exploration.",
   note="Requests are sent with net/http (well-formed HTTP framing); an empty log's CurrentVersion 2^64-1 is not asserted against.", ref="§5 C11"),
 "C06": dict(tech="rapid fault-sequence generation on a real 3-node Raft cluster; replica-equality and cross-replica proof oracle at quiescent points",
   text="Generated sequences of adds, follower stop/restart and leadership transfers run on three real RaftNodes (one child process, loopback transport); at each quiescent point all live replicas must have the same applied state and byte-identical tables and each must serve proofs that verify against the snapshots the leaders returned. Exploration of fault sequences; schedules inside raft are whatever the runtime produces.",
   note="No partitions / message loss (no transport hook); convergence is a 60 s bound, two orders above normal.", ref="§5 C06"),
 "C09": dict(tech="rapid fault-sequence generation with forced log compaction on a real 3-node cluster; convergence oracle after state transfer and after later insertions",
   text="Generated histories take a follower down, insert, force snapshots with TrailingLogs=0 on the rest (so the missed entries are gone), bring back the follower and/or a brand-new node, and require C06's oracle to hold after the state transfer and again after more insertions (optionally after leadership transfer / restart of the restored node). Exploration.",
   note="Compaction is verified to have happened (class 'compacted'); only such cases count as non-trivial. The gap-refusal clause is exercised through the same path (FetchSnapshot validate function); a direct unit drives RaftNode.FetchSnapshot with a fake stream and lying parameters (gap rule, broken streams), and one sequence in three SIGKILLs all replicas after the transfer (the transferred state must be durable).", ref="§5 C09"),
 "C17": dict(tech="rapid-generated arrival patterns through the real concurrent sender; multiset-conservation oracle; signature mutation (every field, every signature bit)",
   text="Generated burst/gap arrival patterns are fed to the real server.Sender (1-4 concurrent batchers, shortened flush interval) on a never-started agent; the multiset emitted must equal the multiset fed, batches respect the size bound, every signature verifies, and no single-field or single-bit alteration of a signed snapshot verifies. Exploration; schedules are the runtime's.",
   note="Oracle is schedule-independent (cannot flake); a loss that needs one precise interleaving may be missed. Encode/sign error branches are unreachable from outside.", ref="§5 C17"),
 "C18": dict(tech="rapid redelivery patterns on the real BatchProcessor; real memberlist networks on loopback with TTL / routing oracle; model-based + race-detector testing of Topology",
   text="Four tiers: generated redelivery multiplicities/orders must create AND execute (real SimpleTasksManager) tasks at most once per batch; generated TTLs and roles on real loopback gossip networks must show TTL decreasing per hop, TTL 0 never sent, at most one peer per role, no self-delivery and terminating dissemination with forwarding on; Topology is checked against a sequential model and under concurrent update/route goroutines with the race detector. Exploration.",
   note="Sender identity comes from payload ids (Message.From arrives nil); memberlist is trusted; negative TTLs are not generated.", ref="§5 C18"),
 "C19": dict(tech="rapid tampering operators (gossiped snapshot / store / log answer) against the real agent task factories with a ground-truth verdict computed by the harness; redelivery patterns for the publisher",
   text="The real auditor, monitor and publisher task factories, wired as `qed agent` wires them to the real RestSnapshotStore and SimpleNotifier (httptest snapshot-store and alerts services; alerts counted at the endpoint), run against an honest log served by the real API handlers and client; each generated batch carries one alteration or none; the harness computes the ground-truth verdict from the published material: no alert without tampering, an alert whenever that verdict is false; the publisher must forward each distinct signature exactly once under generated redelivery patterns; the pipeline unit also sends alert storms (more failing batches than the notifier's default queue, slow alerts service). Exploration.",
   note="A fresh client per batch (a failed request marks the only endpoint dead in the client); tasks that cannot fetch their inputs need not alert (statement is about proofs that fail to verify).", ref="§5 C19"),
 "C20": dict(tech="rapid stateful model-based testing of the client topology (hook) + black-box sequences against real API handlers over a scripted cluster",
   text="Tier 1: generated Update/MarkAsDead/MarkAsAlive/read sequences on the client's topology with roles from the model: selections must be alive, permitted, exhaustive and fair. Tier 2: the real HTTPClient with generated options against httptest servers running the real apihttp handlers over a scripted leader/fault state: insertions only reach believed leaders, successful insertions were executed by the leader, reads respect the preference, leader moves are followed via redirect/discovery, calls are bounded in time and requests. Exploration.",
   note="Update() inputs are distinct secondaries not repeating the primary; servers speak well-formed HTTP.", ref="§5 C20"),
}

NA = {}

def main():
    props = [json.loads(l)["id"] for l in open(os.path.join(VERIF, "properties.jsonl"))]
    checks, na = [], []
    for pid in props:
        if pid in verifcfg.PROPS and pid in TEXT:
            t = TEXT[pid]
            cfg = verifcfg.PROPS[pid]
            c = {
                "property_id": pid,
                "quick_cmd": "./check %s quick" % pid,
                "thorough_cmd": "./check %s thorough" % pid,
                "evidence_file": "evidence/%s.json" % pid,
                "replay_cmd_template": "./check %s --replay {path}" % pid,
                "engine": "pbt-harness",
                "level_claimed": {"category": cfg.get("level", "exploration"), "text": t["text"], "design_ref": "DESIGN.md " + t["ref"]},
                "level_note": t["note"],
                "technique": t["tech"],
            }
            checks.append(c)
        else:
            na.append({"property_id": pid, "reason": NA.get(pid, "check not built yet in this session (design in DESIGN.md §5); not claimed until it runs green on the unchanged tree")})
    m = {
        "version": 1,
        "setup_cmd": "./setup.sh",
        "hooks": {
            "guard": "verif",
            "enable": "go build tag: checks compile /repo with `-tags verif` (files */verif_hooks.go); RocksDB packages additionally need the /verif/compat environment set by ./check",
            "baseline_off_cmd": "cd /repo && GOFLAGS=-mod=mod go test -json -vet=off -count=1 -timeout 25m ./...",
            "source_commits": verifcfg.HOOK_COMMITS,
            "add_only": True,
        },
        "engines": [
            {"name": "pbt-harness", "path": "harness/", "serves_properties": [c["property_id"] for c in checks],
             "kind_free_text": "Go module: pgregory.net/rapid v1.3.0 state-machine / generator based property tests, Go native fuzzing, independent reference model, executor child processes; driven by ./check (python3)"},
        ],
        "checks": checks,
        "not_applicable": na,
        "notes": "Every check rebuilds its test binaries from /repo's working tree (go test -c -tags verif) before running. Exit 0 = held on everything explored; exit 1 + VIOLATION line; exit 2 = the check could not run. See DESIGN.md.",
    }
    json.dump(m, open(os.path.join(VERIF, "MANIFEST.json"), "w"), indent=1)
    print("MANIFEST.json: %d checks, %d not claimed" % (len(checks), len(na)))

main()
