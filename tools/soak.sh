#!/bin/sh
# soak: every quick check at several seeds; prints one line per run, lists any non-zero exit
cd "$(dirname "$0")/.."
seeds="${SEEDS:-1 2 3 4 5}"
props="${PROPS:-C01 C02 C03 C04 C05 C06 C07 C08 C09 C10 C11 C12 C13 C14 C15 C16 C17 C18 C19 C20}"
tier="${TIER:-quick}"
for s in $seeds; do
  for p in $props; do
    out=$(VERIF_SEED=$s ./check $p $tier 2>&1); rc=$?
    echo "seed=$s $p rc=$rc $(echo "$out" | grep -c '^INCONCLUSIVE') inconclusive | $(echo "$out" | grep "$p $tier" | tail -1)"
    if [ $rc -ne 0 ]; then echo "$out" | grep -A1 "^VIOLATION\|CHECK ERROR" | head -8; fi
  done
done
